package compose

import (
	"context"
	"testing"

	"github.com/cloudwego/eino/components/model"
)

// C16: designating a path below a non-graph node, or an option of the wrong type, is an error.
// A pass-through node is not a graph; on the tree before the fix extractOption took it for one.
func TestProbeC16PassthroughDesignation(t *testing.T) {
	ctx := context.Background()
	g := NewGraph[string, string]()
	if err := g.AddPassthroughNode("pt"); err != nil {
		t.Fatal(err)
	}
	if err := g.AddEdge(START, "pt"); err != nil {
		t.Fatal(err)
	}
	if err := g.AddEdge("pt", END); err != nil {
		t.Fatal(err)
	}
	r, err := g.Compile(ctx)
	if err != nil {
		t.Fatal(err)
	}
	_, err = r.Invoke(ctx, "in", WithChatModelOption(model.WithModel("m")).DesignateNodeWithPath(NewNodePath("pt", "nonexistent")))
	if err == nil {
		t.Errorf("designating a path below the pass-through (non-graph) node \"pt\" was accepted silently")
	}
	_, err = r.Invoke(ctx, "in", WithChatModelOption(model.WithModel("m")).DesignateNode("pt"))
	if err == nil {
		t.Errorf("designating a chat-model option to the pass-through node \"pt\" was accepted silently")
	}
	// an undesignated option is still fine
	if out, err := r.Invoke(ctx, "in", WithChatModelOption(model.WithModel("m"))); err != nil || out != "in" {
		t.Errorf("undesignated option: %v %v", out, err)
	}
}
