package compose

import (
	"context"
	"testing"
)

// TestProbeBranchRetypesPassthrough: START(string) -> passthrough p (type inferred: string) -> branch on p whose
// condition takes an int. Either the branch must be rejected (type mismatch) or the graph must run without a type panic.
func TestProbeBranchRetypesPassthrough(t *testing.T) {
	ctx := context.Background()
	g := NewGraph[string, string]()
	_ = g.AddPassthroughNode("p")
	_ = g.AddLambdaNode("a", InvokableLambda(func(ctx context.Context, in int) (string, error) { return "a", nil }))
	_ = g.AddLambdaNode("b", InvokableLambda(func(ctx context.Context, in int) (string, error) { return "b", nil }))
	if err := g.AddEdge(START, "p"); err != nil {
		t.Fatal(err)
	}
	err := g.AddBranch("p", NewGraphBranch(func(ctx context.Context, in int) (string, error) { return "a", nil }, map[string]bool{"a": true, "b": true}))
	if err != nil {
		t.Logf("branch rejected (fine): %v", err)
		return
	}
	_ = g.AddEdge("a", END)
	_ = g.AddEdge("b", END)
	r, err := g.Compile(ctx)
	if err != nil {
		t.Logf("compile rejected (fine): %v", err)
		return
	}
	defer func() {
		if p := recover(); p != nil {
			t.Fatalf("compiled graph panicked at run time: %v", p)
		}
	}()
	_, err = r.Invoke(ctx, "hello")
	if err != nil {
		t.Fatalf("compiled graph failed at run time with a type error: %v", err)
	}
}
