package callbacks

import (
	"github.com/cloudwego/eino/schema"
	"context"
	"testing"
)

type probeHandler struct{ name string }

func (p *probeHandler) OnStart(ctx context.Context, info *RunInfo, input CallbackInput) context.Context { return ctx }
func (p *probeHandler) OnEnd(ctx context.Context, info *RunInfo, output CallbackOutput) context.Context { return ctx }
func (p *probeHandler) OnError(ctx context.Context, info *RunInfo, err error) context.Context { return ctx }
func (p *probeHandler) OnStartWithStreamInput(ctx context.Context, info *RunInfo, input *schema.StreamReader[CallbackInput]) context.Context { return ctx }
func (p *probeHandler) OnEndWithStreamOutput(ctx context.Context, info *RunInfo, output *schema.StreamReader[CallbackOutput]) context.Context { return ctx }

// TestProbeAppendHandlersAliases: parent manager's handler slice has spare capacity (len 3, cap 4);
// two children derived from the same parent context must not see each other's handler.
func TestProbeAppendHandlersAliases(t *testing.T) {
	hs := make([]Handler, 3, 4)
	for i := range hs {
		hs[i] = &probeHandler{name: "p"}
	}
	parent := InitCallbacks(context.Background(), &RunInfo{Name: "graph"}, hs...)
	a := &probeHandler{name: "A"}
	b := &probeHandler{name: "B"}
	ctxA := AppendHandlers(parent, &RunInfo{Name: "nodeA"}, a)
	ctxB := AppendHandlers(parent, &RunInfo{Name: "nodeB"}, b)
	mA, _ := managerFromCtx(ctxA)
	mB, _ := managerFromCtx(ctxB)
	if mA.handlers[3] != Handler(a) {
		t.Fatalf("node A's context carries handler %q instead of its own", mA.handlers[3].(*probeHandler).name)
	}
	if mB.handlers[3] != Handler(b) {
		t.Fatalf("node B's context carries handler %q", mB.handlers[3].(*probeHandler).name)
	}
}
