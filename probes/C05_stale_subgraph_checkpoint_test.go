package compose

import (
	"context"
	"sync/atomic"
	"testing"
)

type probeStore struct{ m map[string][]byte }

func (i *probeStore) Get(ctx context.Context, id string) ([]byte, bool, error) {
	v, ok := i.m[id]
	return v, ok, nil
}
func (i *probeStore) Set(ctx context.Context, id string, cp []byte) error { i.m[id] = cp; return nil }

// TestProbeStaleSubGraphCheckpoint: outer cyclic graph START -> sub -> (loop back to sub once) -> END; sub is a graph
// node s1 -> s2 with interrupt-before s2. Run, interrupt inside sub, resume. After the resumed sub finishes the outer
// graph runs sub a second time: that execution must start fresh (s1 runs again, then interrupts before s2 again),
// not from the old nested checkpoint.
func TestProbeStaleSubGraphCheckpoint(t *testing.T) {
	ctx := context.Background()
	var s1Runs, s2Runs int32
	sub := NewGraph[string, string]()
	_ = sub.AddLambdaNode("s1", InvokableLambda(func(ctx context.Context, in string) (string, error) {
		atomic.AddInt32(&s1Runs, 1)
		return in + "a", nil
	}))
	_ = sub.AddLambdaNode("s2", InvokableLambda(func(ctx context.Context, in string) (string, error) {
		atomic.AddInt32(&s2Runs, 1)
		return in + "b", nil
	}))
	_ = sub.AddEdge(START, "s1")
	_ = sub.AddEdge("s1", "s2")
	_ = sub.AddEdge("s2", END)

	g := NewGraph[string, string]()
	_ = g.AddGraphNode("sub", sub, WithGraphCompileOptions(WithInterruptBeforeNodes([]string{"s2"})))
	_ = g.AddEdge(START, "sub")
	_ = g.AddBranch("sub", NewGraphBranch(func(ctx context.Context, in string) (string, error) {
		if len(in) < 4 {
			return "sub", nil
		}
		return END, nil
	}, map[string]bool{"sub": true, END: true}))
	store := &probeStore{m: map[string][]byte{}}
	r, err := g.Compile(ctx, WithCheckPointStore(store), WithMaxRunSteps(20))
	if err != nil {
		t.Fatal(err)
	}
	_, err = r.Invoke(ctx, "", WithCheckPointID("1"))
	if _, ok := ExtractInterruptInfo(err); !ok {
		t.Fatalf("expected interrupt, got %v", err)
	}
	// resume: s2 runs, sub returns "ab", branch loops back to sub (len 2 < 4)
	_, err = r.Invoke(ctx, "", WithCheckPointID("1"))
	t.Logf("after resume: err=%v s1Runs=%d s2Runs=%d", err, s1Runs, s2Runs)
	if s1Runs != 2 {
		t.Fatalf("second execution of the sub-graph did not start fresh: s1 ran %d times, s2 ran %d times, err=%v", s1Runs, s2Runs, err)
	}
}
