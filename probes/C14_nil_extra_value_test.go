package schema

import "testing"

// TestProbeConcatNilExtraValue: concatenating chunks whose Extra maps hold a nil value must return a value or an
// error, never panic.
func TestProbeConcatNilExtraValue(t *testing.T) {
	defer func() {
		if r := recover(); r != nil {
			t.Fatalf("ConcatMessages panicked: %v", r)
		}
	}()
	msgs := []*Message{
		{Role: Assistant, Content: "a", Extra: map[string]any{"k": nil}},
		{Role: Assistant, Content: "b", Extra: map[string]any{"k": nil}},
	}
	m, err := ConcatMessages(msgs)
	t.Logf("result: %+v err=%v", m, err)
	msgs = []*Message{
		{Role: Assistant, Content: "a", Extra: map[string]any{"k": nil, "j": "x"}},
		{Role: Assistant, Content: "b", Extra: map[string]any{"k": "v"}},
	}
	m, err = ConcatMessages(msgs)
	t.Logf("result: %+v err=%v", m, err)
}
