package compose

import (
	"context"
	"fmt"
	"testing"
	"time"

	"github.com/cloudwego/eino/schema"
)

// TestProbeBranchCopyLeak: node A streams; it has a plain edge to X and a multi-branch whose condition selects
// NO target (scenario 1), or two branches that select the same target (scenario 2). X reads a prefix and closes.
// After the run's output has been read, A's producer must be told that all readers are gone.
func TestProbeBranchCopyLeak(t *testing.T) {
	for _, scenario := range []string{"multi-branch selects nothing", "two branches select the same node"} {
		ctx := context.Background()
		released := make(chan int, 1)
		g := NewGraph[string, string]()
		_ = g.AddLambdaNode("A", StreamableLambda(func(ctx context.Context, in string) (*schema.StreamReader[string], error) {
			sr, sw := schema.Pipe[string](0)
			go func() {
				sent := 0
				for i := 0; i < 64; i++ {
					if sw.Send(fmt.Sprintf("chunk-%d", i), nil) {
						break
					}
					sent++
				}
				sw.Close()
				released <- sent
			}()
			return sr, nil
		}))
		prefix := func(name string) *Lambda {
			return TransformableLambda(func(ctx context.Context, in *schema.StreamReader[string]) (*schema.StreamReader[string], error) {
				first, e := in.Recv()
				in.Close()
				if e != nil {
					return nil, e
				}
				return schema.StreamReaderFromArray([]string{name + ":" + first}), nil
			})
		}
		_ = g.AddLambdaNode("X", prefix("X"))
		_ = g.AddLambdaNode("Y", prefix("Y"))
		_ = g.AddLambdaNode("Z", prefix("Z"))
		_ = g.AddEdge(START, "A")
		if scenario == "multi-branch selects nothing" {
			_ = g.AddEdge("A", "X")
			_ = g.AddEdge("X", END)
			_ = g.AddBranch("A", NewStreamGraphMultiBranch(func(ctx context.Context, in *schema.StreamReader[string]) (map[string]bool, error) {
				_, e := in.Recv()
				in.Close()
				return map[string]bool{}, e
			}, map[string]bool{"Y": true, "Z": true}))
		} else {
			cond := func() *GraphBranch {
				return NewStreamGraphBranch(func(ctx context.Context, in *schema.StreamReader[string]) (string, error) {
					_, e := in.Recv()
					in.Close()
					return "Y", e
				}, map[string]bool{"Y": true, "Z": true})
			}
			_ = g.AddBranch("A", cond())
			_ = g.AddBranch("A", cond())
		}
		_ = g.AddEdge("Y", END)
		_ = g.AddEdge("Z", END)
		mode := AnyPredecessor
		if scenario != "multi-branch selects nothing" {
			g.nodes["X"] = nil
			delete(g.nodes, "X")
			mode = AllPredecessor
		}
		r, err := g.Compile(ctx, WithNodeTriggerMode(mode))
		if err != nil {
			t.Fatal(err)
		}
		sr, err := r.Stream(ctx, "in")
		if err != nil {
			t.Fatalf("%s: %v", scenario, err)
		}
		for {
			_, e := sr.Recv()
			if e != nil {
				break
			}
		}
		sr.Close()
		select {
		case n := <-released:
			t.Logf("%s: producer released after %d chunks", scenario, n)
		case <-time.After(3 * time.Second):
			t.Errorf("%s: the producer of node A is still blocked on Send after the run's output was read to the end: a stream copy was neither delivered nor closed", scenario)
		}
	}
}
