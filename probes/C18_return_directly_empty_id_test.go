package react

// C18: the agent returns the result of a tool marked return-directly. Before the fix the tool-call id doubled as the
// "a return-directly tool was called" flag, so a model that leaves tool-call ids empty defeated return-directly.

import (
	"context"
	"fmt"
	"sync"
	"testing"

	"github.com/cloudwego/eino/components/model"
	"github.com/cloudwego/eino/components/tool"
	"github.com/cloudwego/eino/compose"
	"github.com/cloudwego/eino/schema"
)

// ---- shared harness -------------------------------------------------------

// probeC18Model is a scripted model: script[k] is the list of stream chunks of its k-th answer
// (Generate returns their concatenation). It records a private copy of every input it gets.
type probeC18Model struct {
	mu     sync.Mutex
	script [][]*schema.Message
	calls  [][]string
}

func (m *probeC18Model) next(in []*schema.Message) ([]*schema.Message, error) {
	m.mu.Lock()
	defer m.mu.Unlock()
	seen := make([]string, 0, len(in))
	for _, x := range in {
		if x == nil {
			seen = append(seen, "<nil>")
			continue
		}
		seen = append(seen, fmt.Sprintf("%s:%s", x.Role, x.Content))
	}
	k := len(m.calls)
	m.calls = append(m.calls, seen)
	if k >= len(m.script) {
		return nil, fmt.Errorf("script exhausted at model call %d", k+1)
	}
	return m.script[k], nil
}

func (m *probeC18Model) Generate(_ context.Context, in []*schema.Message, _ ...model.Option) (*schema.Message, error) {
	chunks, err := m.next(in)
	if err != nil {
		return nil, err
	}
	return schema.ConcatMessages(chunks)
}

func (m *probeC18Model) Stream(_ context.Context, in []*schema.Message, _ ...model.Option) (*schema.StreamReader[*schema.Message], error) {
	chunks, err := m.next(in)
	if err != nil {
		return nil, err
	}
	return schema.StreamReaderFromArray(chunks), nil
}

func (m *probeC18Model) WithTools(_ []*schema.ToolInfo) (model.ToolCallingChatModel, error) { return m, nil }

// probeC18Tool is a recording invokable tool.
type probeC18Tool struct {
	name string
	mu   *sync.Mutex
	log  *[]string
}

func (t *probeC18Tool) Info(_ context.Context) (*schema.ToolInfo, error) {
	return &schema.ToolInfo{Name: t.name, Desc: t.name}, nil
}

func (t *probeC18Tool) InvokableRun(_ context.Context, args string, _ ...tool.Option) (string, error) {
	t.mu.Lock()
	*t.log = append(*t.log, t.name)
	t.mu.Unlock()
	return "res:" + t.name, nil
}

func probeC18TC(id, name string) schema.ToolCall {
	return schema.ToolCall{ID: id, Type: "function", Function: schema.FunctionCall{Name: name, Arguments: "{}"}}
}

func probeC18Run(t *testing.T, stream bool, cfg *AgentConfig) (*schema.Message, error) {
	ctx := context.Background()
	a, err := NewAgent(ctx, cfg)
	if err != nil {
		t.Fatalf("NewAgent: %v", err)
	}
	in := []*schema.Message{schema.UserMessage("hi")}
	if !stream {
		return a.Generate(ctx, in)
	}
	sr, err := a.Stream(ctx, in)
	if err != nil {
		return nil, err
	}
	return schema.ConcatMessageStream(sr)
}

// ---- D1: return-directly tool called with an empty tool-call ID -------------

func TestProbeC18ReturnDirectlyEmptyToolCallID(t *testing.T) {
	for _, stream := range []bool{false, true} {
		var mu sync.Mutex
		var log []string
		m := &probeC18Model{script: [][]*schema.Message{
			{schema.AssistantMessage("", []schema.ToolCall{probeC18TC("", "rd")})}, // model that does not fill ToolCall.ID
			{schema.AssistantMessage("final", nil)},
		}}
		out, err := probeC18Run(t, stream, &AgentConfig{
			ToolCallingModel:   m,
			ToolsConfig:        compose.ToolsNodeConfig{Tools: []tool.BaseTool{&probeC18Tool{"rd", &mu, &log}}},
			ToolReturnDirectly: map[string]struct{}{"rd": {}},
			MaxStep:            20,
		})
		if err != nil {
			t.Errorf("stream=%v: unexpected error %v", stream, err)
			continue
		}
		if out.Role != schema.Tool || out.Content != "res:rd" || len(m.calls) != 1 {
			t.Errorf("stream=%v: tool 'rd' is marked return-directly and was called (tools run: %v), the agent must return its result "+
				"and stop; got %s message %q after %d model calls", stream, log, out.Role, out.Content, len(m.calls))
		}
	}
}

