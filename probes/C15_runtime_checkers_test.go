package compose

import (
	"context"
	"fmt"
	"testing"
)

// C15: mappings whose types can only be checked at run time produce an error, never a panic, and accepted mappings
// deliver exactly the source values. Before the fix every run-time checker of an edge tested against the successor
// type of the LAST mapping of that edge (captured loop variables), and the checker behind an interface-typed hole
// dereferenced a nil reflect.Type for a nil value.

func probeC15InvokeNoPanic[I, O any](r Runnable[I, O], in I) (out O, err error, panicked any) {
	defer func() {
		if p := recover(); p != nil {
			s := fmt.Sprint(p)
			if len(s) > 220 {
				s = s[:220] + "..."
			}
			panicked = s
		}
	}()
	out, err = r.Invoke(context.Background(), in)
	return
}

type c15Sub struct{ F string }

type c15TwoAny struct {
	I1 any
	I2 any
}

type c15TwoOut struct {
	S string
	N int
}

// D8: all run-time checkers of one edge test against the successor field type of the LAST mapping.
func TestProbeC15CheckersShareLastType(t *testing.T) {
	ctx := context.Background()
	wf := NewWorkflow[c15TwoAny, c15TwoOut]()
	wf.End().AddInput(START, MapFields("I1", "S"), MapFields("I2", "N"))
	r, err := wf.Compile(ctx)
	if err != nil {
		t.Fatalf("compile: %v", err)
	}
	out, err, p := probeC15InvokeNoPanic(r, c15TwoAny{I1: "s", I2: 3})
	if p != nil || err != nil || out != (c15TwoOut{S: "s", N: 3}) {
		t.Errorf("exact-values clause: well-typed input {I1:\"s\", I2:3}: want {S:s N:3}, got out=%+v err=%v panic=%v", out, err, p)
	}
	out, err, p = probeC15InvokeNoPanic(r, c15TwoAny{I1: 5, I2: 3})
	if p != nil || err == nil {
		t.Errorf("error-never-panic clause: ill-typed input {I1:5 (int -> string field)}: want an error, got out=%+v err=%v panic=%v", out, err, p)
	}
}

type c15PtrOut struct{ P *c15Sub }

// D10: the run-time checker installed for a source path that crosses an interface-typed hole
// dereferences a nil reflect.Type when the value found at the source path is nil.
func TestProbeC15NilBehindInterfaceHole(t *testing.T) {
	ctx := context.Background()
	wf := NewWorkflow[map[string]any, c15PtrOut]()
	wf.End().AddInput(START, MapFieldPaths(FieldPath{"k", "x", "y"}, FieldPath{"P"}))
	r, err := wf.Compile(ctx)
	if err != nil {
		t.Fatalf("compile: %v", err)
	}
	out, err, p := probeC15InvokeNoPanic(r, map[string]any{"k": map[string]any{"x": map[string]any{"y": &c15Sub{F: "ok"}}}})
	if p != nil || err != nil || out.P == nil || out.P.F != "ok" {
		t.Fatalf("non-nil value: out=%+v err=%v panic=%v", out, err, p)
	}
	out, err, p = probeC15InvokeNoPanic(r, map[string]any{"k": map[string]any{"x": map[string]any{"y": nil}}})
	if p != nil {
		t.Errorf("error-never-panic clause: nil at source path k.x.y -> *struct field: Invoke panicked: %v (out=%+v err=%v)", p, out, err)
	} else if err != nil || out.P != nil {
		t.Errorf("exact-values clause: want P=nil, got out=%+v err=%v", out, err)
	}
}

// D11: a mapping set with a static value that Compile accepted is rejected as overlapping with
// itself when the same Workflow is compiled a second time.
