package react

import (
	"context"
	"sync"
	"testing"

	"github.com/cloudwego/eino/components/model"
	"github.com/cloudwego/eino/components/tool"
	"github.com/cloudwego/eino/compose"
	"github.com/cloudwego/eino/schema"
)

type probeModel struct{}

func (probeModel) Generate(ctx context.Context, in []*schema.Message, opts ...model.Option) (*schema.Message, error) {
	return schema.AssistantMessage("", []schema.ToolCall{{ID: "c1", Function: schema.FunctionCall{Name: "t", Arguments: "{}"}}}), nil
}
func (m probeModel) Stream(ctx context.Context, in []*schema.Message, opts ...model.Option) (*schema.StreamReader[*schema.Message], error) {
	msg, _ := m.Generate(ctx, in)
	return schema.StreamReaderFromArray([]*schema.Message{msg}), nil
}
func (probeModel) BindTools(tools []*schema.ToolInfo) error { return nil }

type probeTool struct{}

func (probeTool) Info(ctx context.Context) (*schema.ToolInfo, error) {
	return &schema.ToolInfo{Name: "t", Desc: "t"}, nil
}
func (probeTool) InvokableRun(ctx context.Context, args string, opts ...tool.Option) (string, error) {
	return "done", nil
}

// TestProbeReturnDirectlyRace (run with -race): two concurrent Generate calls on one agent with a return-directly
// tool. The convert closure built by buildReturnDirectly assigns buildReturnDirectly's named result err, which is
// shared by all runs.
func TestProbeReturnDirectlyRace(t *testing.T) {
	ctx := context.Background()
	a, err := NewAgent(ctx, &AgentConfig{
		Model:              probeModel{},
		ToolsConfig:        compose.ToolsNodeConfig{Tools: []tool.BaseTool{probeTool{}}},
		MaxStep:            10,
		ToolReturnDirectly: map[string]struct{}{"t": {}},
	})
	if err != nil {
		t.Fatal(err)
	}
	var wg sync.WaitGroup
	for i := 0; i < 8; i++ {
		wg.Add(1)
		go func() {
			defer wg.Done()
			for j := 0; j < 50; j++ {
				out, err := a.Generate(ctx, []*schema.Message{schema.UserMessage("hi")})
				if err != nil || out == nil || out.Content != "done" {
					t.Errorf("unexpected result %v %v", out, err)
					return
				}
			}
		}()
	}
	wg.Wait()
}
