package compose

import "testing"

// TestProbeDesignateAliases: an option designated to 5 nodes has a paths slice with spare capacity (len 5, cap 6
// or 8 after append growth); two options derived from it by designating one more node must not share that node.
func TestProbeDesignateAliases(t *testing.T) {
	base := WithLambdaOption("x").DesignateNode("a", "b", "c", "d", "e")
	t.Logf("base paths len=%d cap=%d", len(base.paths), cap(base.paths))
	o1 := base.DesignateNode("left")
	o2 := base.DesignateNode("right")
	if got := o1.paths[len(o1.paths)-1].path[0]; got != "left" {
		t.Fatalf("first derived option is designated to %q instead of \"left\" (second: %q)", got, o2.paths[len(o2.paths)-1].path[0])
	}
}
