package compose

import (
	"context"
	"testing"
)

// C11: a nested graph that declares no state works on its parent's state object, also after interrupt and resume;
// before the fix it stored the parent's state in its own checkpoint and resumed on a private copy (lost update).
type probeC11State struct{ A string }

func TestProbeC11NestedStatelessResume(t *testing.T) {
	RegisterSerializableType[probeC11State]("probe_c11_state")
	build := func(interrupt bool) Runnable[string, string] {
		sub := NewGraph[string, string]() // declares NO state
		_ = sub.AddLambdaNode("s1", InvokableLambda(func(ctx context.Context, in string) (string, error) { return in, nil }))
		_ = sub.AddLambdaNode("s2", InvokableLambda(func(ctx context.Context, in string) (string, error) {
			err := ProcessState[*probeC11State](ctx, func(_ context.Context, s *probeC11State) error { s.A += "sub"; return nil })
			return in, err
		}))
		_ = sub.AddEdge(START, "s1")
		_ = sub.AddEdge("s1", "s2")
		_ = sub.AddEdge("s2", END)

		g := NewGraph[string, string](WithGenLocalState(func(ctx context.Context) *probeC11State { return &probeC11State{} }))
		var copts []GraphAddNodeOpt
		if interrupt {
			copts = append(copts, WithGraphCompileOptions(WithInterruptAfterNodes([]string{"s1"})))
		}
		if err := g.AddGraphNode("sub", sub, copts...); err != nil {
			t.Fatal(err)
		}
		_ = g.AddLambdaNode("after", InvokableLambda(func(ctx context.Context, in string) (string, error) { return in, nil }),
			WithStatePreHandler(func(ctx context.Context, in string, s *probeC11State) (string, error) { return in + "|" + s.A, nil }))
		_ = g.AddEdge(START, "sub")
		_ = g.AddEdge("sub", "after")
		_ = g.AddEdge("after", END)
		r, err := g.Compile(context.Background(), WithCheckPointStore(newInMemoryStore()))
		if err != nil {
			t.Fatal(err)
		}
		return r
	}
	ctx := context.Background()
	out, err := build(false).Invoke(ctx, "x")
	if err != nil || out != "x|sub" {
		t.Fatalf("baseline without interrupt: out=%q err=%v", out, err)
	}
	r := build(true)
	_, err = r.Invoke(ctx, "x", WithCheckPointID("1"))
	if _, ok := ExtractInterruptInfo(err); !ok {
		t.Fatalf("expected interrupt, got %v", err)
	}
	out, err = r.Invoke(ctx, "x", WithCheckPointID("1"))
	if err != nil {
		t.Fatal(err)
	}
	if out != "x|sub" {
		t.Fatalf("state update made by nested (stateless) graph after resume was lost: want %q got %q", "x|sub", out)
	}
}
