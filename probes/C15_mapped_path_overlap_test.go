package compose

import "testing"

// TestProbeMappedPathOverlap: overlapping target paths of one workflow node must be rejected whatever the order
// in which they are declared.
func TestProbeMappedPathOverlap(t *testing.T) {
	type step struct {
		paths   []FieldPath
		wantErr bool
	}
	cases := map[string][]step{
		"prefix after longer path": {{[]FieldPath{{"A", "B"}}, false}, {[]FieldPath{{"A"}}, true}},
		"longer path after prefix": {{[]FieldPath{{"A"}}, false}, {[]FieldPath{{"A", "B"}}, true}},
		"same path again after a sibling": {{[]FieldPath{{"A", "B"}}, false}, {[]FieldPath{{"A", "C"}}, false}, {[]FieldPath{{"A", "B"}}, true}},
		"whole input after a field":      {{[]FieldPath{{"A"}}, false}, {nil, true}},
		"field after whole input":        {{nil, false}, {[]FieldPath{{"A"}}, true}},
		"disjoint":                       {{[]FieldPath{{"A", "B"}}, false}, {[]FieldPath{{"A", "C"}, {"D"}}, false}},
	}
	for name, steps := range cases {
		n := &WorkflowNode{key: "n", mappedFieldPath: map[string]any{}}
		for i, s := range steps {
			err := n.checkAndAddMappedPath(s.paths)
			if (err != nil) != s.wantErr {
				t.Errorf("%s: step %d paths=%v: err=%v, want error=%v", name, i, s.paths, err, s.wantErr)
			}
		}
	}
}
