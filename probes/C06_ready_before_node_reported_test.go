package compose

// C06: an interrupt-before node does not run before an interrupt has reported it. Eager mode: X becomes ready, the drain
// finds a task asking for a rerun, the interrupt returned names only the rerun; before the fix X then ran on resume unreported.

import (
	"context"
	"sync"
	"testing"
)

type probeC06d1Store struct {
	mu sync.Mutex
	m  map[string][]byte
}

func (s *probeC06d1Store) Get(_ context.Context, id string) ([]byte, bool, error) {
	s.mu.Lock()
	defer s.mu.Unlock()
	v, ok := s.m[id]
	return v, ok, nil
}

func (s *probeC06d1Store) Set(_ context.Context, id string, v []byte) error {
	s.mu.Lock()
	defer s.mu.Unlock()
	s.m[id] = v
	return nil
}

type probeC06d1State struct {
	N int
}

// Eager DAG (Workflow): START -> A -> X -> END, START -> B -> END.
// X is interrupt-before. A finishes first, which makes X ready (interrupt-before hit), the run
// loop then waits for the remaining task B, which asks for InterruptAndRerun.
// The interrupt that is returned lists B as rerun node but does NOT list X as before node, although
// X is saved in the checkpoint as a ready task; resuming then executes X without X ever having
// been reported.
func TestProbeC06ReadyBeforeNodeReportedWithRerun(t *testing.T) {
	_ = RegisterSerializableType[probeC06d1State]("probeC06d1_state")

	aConsumed := make(chan struct{})
	var once sync.Once

	var mu sync.Mutex
	var log []string
	bCalls := 0
	reported := map[string]bool{}

	wf := NewWorkflow[string, map[string]any](WithGenLocalState(func(ctx context.Context) *probeC06d1State {
		return &probeC06d1State{}
	}))
	wf.AddLambdaNode("A", InvokableLambda(func(ctx context.Context, in string) (string, error) {
		mu.Lock()
		log = append(log, "A")
		mu.Unlock()
		return in + "A", nil
	}), WithStatePostHandler(func(ctx context.Context, out string, s *probeC06d1State) (string, error) {
		// runs in the run loop after A's completion has been taken by the loop
		once.Do(func() { close(aConsumed) })
		return out, nil
	})).AddInput(START)
	wf.AddLambdaNode("B", InvokableLambda(func(ctx context.Context, in string) (string, error) {
		mu.Lock()
		bCalls++
		n := bCalls
		log = append(log, "B")
		mu.Unlock()
		if n == 1 {
			<-aConsumed // finish strictly after A's completion has been processed
			return "", InterruptAndRerun
		}
		return "B", nil
	})).AddInput(START)
	wf.AddLambdaNode("X", InvokableLambda(func(ctx context.Context, in string) (string, error) {
		mu.Lock()
		defer mu.Unlock()
		log = append(log, "X")
		if !reported["X"] {
			t.Errorf("interrupt-before node X began executing although no interrupt ever reported it in BeforeNodes; execution log: %v", log)
		}
		return in + "X", nil
	})).AddInput("A")
	wf.End().AddInput("X", ToField("x")).AddInput("B", ToField("b"))

	ctx := context.Background()
	store := &probeC06d1Store{m: map[string][]byte{}}
	r, err := wf.Compile(ctx, WithCheckPointStore(store), WithInterruptBeforeNodes([]string{"X"}))
	if err != nil {
		t.Fatal(err)
	}

	for i := 0; i < 5; i++ {
		out, err := r.Invoke(ctx, "in", WithCheckPointID("cp"))
		if err == nil {
			t.Logf("run finished: %v, log=%v", out, log)
			return
		}
		info, ok := ExtractInterruptInfo(err)
		if !ok {
			t.Fatalf("unexpected error: %v", err)
		}
		t.Logf("interrupt %d: before=%v after=%v rerun=%v", i, info.BeforeNodes, info.AfterNodes, info.RerunNodes)
		mu.Lock()
		for _, n := range info.BeforeNodes {
			reported[n] = true
		}
		mu.Unlock()
	}
	t.Fatalf("did not finish")
}
