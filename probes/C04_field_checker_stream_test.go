package compose

import (
	"runtime/debug"
	"context"
	"testing"

	"github.com/cloudwego/eino/schema"
)

type probeFMIn struct{ A any }
type probeFMOut struct{ B string }

func TestProbeFieldCheckerStream(t *testing.T) {
	ctx := context.Background()
	g := NewWorkflow[string, string]()
	g.AddLambdaNode("p", InvokableLambda(func(ctx context.Context, in string) (probeFMIn, error) { return probeFMIn{A: in}, nil })).AddInput(START)
	g.AddLambdaNode("c", InvokableLambda(func(ctx context.Context, in probeFMOut) (string, error) { return "got:" + in.B, nil })).AddInput("p", MapFields("A", "B"))
	g.End().AddInput("c")
	r, err := g.Compile(ctx)
	if err != nil {
		t.Fatal(err)
	}
	out, err := r.Invoke(ctx, "x")
	t.Logf("invoke: %q %v", out, err)
	func() {
		defer func() {
			if p := recover(); p != nil {
				t.Errorf("Stream panicked: %v\n%s", p, debug.Stack())
			}
		}()
		sr, err := r.Stream(ctx, "x")
		if err != nil {
			t.Logf("stream err: %v", err)
			return
		}
		s, err := concatStreamReader(sr)
		t.Logf("stream: %q %v", s, err)
		if s != out {
			t.Errorf("Invoke %q vs Stream %q (%v)", out, s, err)
		}
	}()
	_ = schema.Message{}
}
