package compose

import (
	"context"
	"testing"
)

// C01/C02: branch conditions decide which of their targets receive the value. A multi-branch condition answers with
// a map from target to bool; before the fix a target answered `false` was selected all the same.
func TestProbeC01MultiBranchFalseEntry(t *testing.T) {
	ctx := context.Background()
	ran := map[string]int{}
	g := NewGraph[string, map[string]any]()
	mk := func(name string) *Lambda {
		return InvokableLambda(func(ctx context.Context, in string) (string, error) { ran[name]++; return in + name, nil })
	}
	_ = g.AddLambdaNode("a", mk("a"), WithOutputKey("a"))
	_ = g.AddLambdaNode("b", mk("b"), WithOutputKey("b"))
	_ = g.AddBranch(START, NewGraphMultiBranch(func(ctx context.Context, in string) (map[string]bool, error) {
		return map[string]bool{"a": true, "b": false}, nil
	}, map[string]bool{"a": true, "b": true}))
	_ = g.AddEdge("a", END)
	_ = g.AddEdge("b", END)
	r, err := g.Compile(ctx)
	if err != nil {
		t.Fatal(err)
	}
	out, err := r.Invoke(ctx, "x")
	if err != nil {
		t.Fatal(err)
	}
	if ran["b"] != 0 {
		t.Errorf("target b was answered false by the branch condition but ran %d time(s); out=%v", ran["b"], out)
	}
	if ran["a"] != 1 {
		t.Errorf("target a was answered true but ran %d time(s)", ran["a"])
	}
}
