package schema

import (
	"io"
	"testing"
)

// C08: a converted stream maps item-wise - also when an item is the nil value of an interface element type.
// Before the fix the converter closure asserted a.(T) on the nil any and panicked: the item was not delivered.
func TestProbeC08ConvertNilInterfaceItem(t *testing.T) {
	src := StreamReaderFromArray([]any{1, nil, 3})
	conv := StreamReaderWithConvert(src, func(a any) (any, error) { return a, nil })
	defer conv.Close()

	var got []any
	func() {
		defer func() {
			if r := recover(); r != nil {
				t.Fatalf("Recv panicked on a nil item instead of delivering it: %v (delivered so far: %v)", r, got)
			}
		}()
		for {
			v, err := conv.Recv()
			if err == io.EOF {
				break
			}
			if err != nil {
				t.Fatalf("unexpected error %v", err)
			}
			got = append(got, v)
		}
	}()
	if len(got) != 3 || got[0] != 1 || got[1] != nil || got[2] != 3 {
		t.Fatalf("want [1 <nil> 3], got %v", got)
	}
}
