package react

import (
	"context"
	"testing"

	"github.com/cloudwego/eino/components/model"
	"github.com/cloudwego/eino/schema"
)

type obsModel struct{}

func (m *obsModel) Generate(_ context.Context, _ []*schema.Message, _ ...model.Option) (*schema.Message, error) {
	return schema.AssistantMessage("done", nil), nil
}
func (m *obsModel) Stream(ctx context.Context, in []*schema.Message, _ ...model.Option) (*schema.StreamReader[*schema.Message], error) {
	msg, _ := m.Generate(ctx, in)
	return schema.StreamReaderFromArray([]*schema.Message{msg}), nil
}
func (m *obsModel) WithTools(_ []*schema.ToolInfo) (model.ToolCallingChatModel, error) { return m, nil }

type obsKey struct{}

func TestProbeCheckerGetsRunContext(t *testing.T) {
	buildCtx := context.WithValue(context.Background(), obsKey{}, "build")
	var seen []any
	a, err := NewAgent(buildCtx, &AgentConfig{
		ToolCallingModel: &obsModel{},
		MaxStep:          5,
		StreamToolCallChecker: func(ctx context.Context, sr *schema.StreamReader[*schema.Message]) (bool, error) {
			defer sr.Close()
			seen = append(seen, ctx.Value(obsKey{}))
			return false, nil
		},
	})
	if err != nil {
		t.Fatal(err)
	}
	for _, run := range []string{"run1", "run2"} {
		runCtx := context.WithValue(context.Background(), obsKey{}, run)
		if _, err = a.Generate(runCtx, []*schema.Message{schema.UserMessage("hi")}); err != nil {
			t.Fatal(err)
		}
	}
	if len(seen) != 2 || seen[0] != "run1" || seen[1] != "run2" {
		t.Fatalf("the tool-call checker of each run must get that run's context, got values %v (every run is handed the context NewAgent was built with)", seen)
	}
}
