package compose

import (
	"context"
	"strings"
	"testing"
)

// C07/C04: a graph that compiled does not fail a run with a type-mismatch panic for a value of the declared type. A nil
// value is a valid value of an interface type; before the fix the value form reported it as "unexpected input type"
// (a panic turned into a node error) while the stream form accepted it.
func TestProbeC07NilInterfaceValueBetweenNodes(t *testing.T) {
	ctx := context.Background()
	g := NewGraph[string, string]()
	_ = g.AddLambdaNode("a", InvokableLambda(func(ctx context.Context, in string) (any, error) { return nil, nil }))
	_ = g.AddLambdaNode("b", InvokableLambda(func(ctx context.Context, in any) (string, error) {
		if in == nil {
			return "got nil", nil
		}
		return "got something", nil
	}))
	_ = g.AddEdge(START, "a")
	_ = g.AddEdge("a", "b")
	_ = g.AddEdge("b", END)
	r, err := g.Compile(ctx)
	if err != nil {
		t.Fatal(err)
	}
	out, err := r.Invoke(ctx, "x")
	if err != nil {
		if strings.Contains(err.Error(), "unexpected input type") {
			t.Fatalf("a nil value of the declared interface type was reported as a type mismatch: %v", err)
		}
		t.Fatal(err)
	}
	if out != "got nil" {
		t.Fatalf("want %q got %q", "got nil", out)
	}
}
