package compose

import (
	"context"
	"sync/atomic"
	"testing"
)

type probeStore06 struct{ m map[string][]byte }

func (i *probeStore06) Get(ctx context.Context, id string) ([]byte, bool, error) {
	v, ok := i.m[id]
	return v, ok, nil
}
func (i *probeStore06) Set(ctx context.Context, id string, cp []byte) error { i.m[id] = cp; return nil }

// TestProbeInterruptBeforeFirstNode: START -> a -> END with interrupt-before a. The first run must stop before a
// executes, report a in BeforeNodes and write the checkpoint; the resumed run executes a and finishes.
func TestProbeInterruptBeforeFirstNode(t *testing.T) {
	for _, mode := range []string{"pregel", "dag"} {
		ctx := context.Background()
		var runs int32
		g := NewGraph[string, string]()
		_ = g.AddLambdaNode("a", InvokableLambda(func(ctx context.Context, in string) (string, error) {
			atomic.AddInt32(&runs, 1)
			return in + "a", nil
		}))
		_ = g.AddEdge(START, "a")
		_ = g.AddEdge("a", END)
		store := &probeStore06{m: map[string][]byte{}}
		opts := []GraphCompileOption{WithCheckPointStore(store), WithInterruptBeforeNodes([]string{"a"})}
		if mode == "dag" {
			opts = append(opts, WithNodeTriggerMode(AllPredecessor))
		}
		r, err := g.Compile(ctx, opts...)
		if err != nil {
			t.Fatal(err)
		}
		out, err := r.Invoke(ctx, "x", WithCheckPointID("1"))
		info, ok := ExtractInterruptInfo(err)
		if !ok {
			t.Fatalf("%s: node a is interrupt-before but the run was not interrupted: out=%q err=%v, a ran %d times", mode, out, err, runs)
		}
		if runs != 0 {
			t.Fatalf("%s: a ran before the interrupt", mode)
		}
		if len(info.BeforeNodes) != 1 || info.BeforeNodes[0] != "a" {
			t.Fatalf("%s: BeforeNodes=%v", mode, info.BeforeNodes)
		}
		if _, ok := store.m["1"]; !ok {
			t.Fatalf("%s: no checkpoint written", mode)
		}
		out, err = r.Invoke(ctx, "ignored", WithCheckPointID("1"))
		if err != nil || out != "xa" || runs != 1 {
			t.Fatalf("%s: resume: out=%q err=%v runs=%d", mode, out, err, runs)
		}
		// stream mode
		runs = 0
		store.m = map[string][]byte{}
		_, err = r.Stream(ctx, "x", WithCheckPointID("2"))
		if _, ok := ExtractInterruptInfo(err); !ok || runs != 0 {
			t.Fatalf("%s stream: not interrupted: err=%v runs=%d", mode, err, runs)
		}
		sr, err := r.Stream(ctx, "ignored", WithCheckPointID("2"))
		if err != nil {
			t.Fatalf("%s stream resume: %v", mode, err)
		}
		s, err := concatStreamReader(sr)
		if err != nil || s != "xa" {
			t.Fatalf("%s stream resume: %q %v", mode, s, err)
		}
	}
}
