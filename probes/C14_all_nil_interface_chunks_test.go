package internal

import "testing"

// C14: concatenation never panics: it returns a value or an error. Before the fix chunks that are all the nil value
// of an interface element type made ConcatItems assert on a nil interface and panic.
func TestProbeC14AllNilInterfaceChunks(t *testing.T) {
	defer func() {
		if p := recover(); p != nil {
			t.Fatalf("ConcatItems panicked on all-nil interface chunks: %v", p)
		}
	}()
	out, err := ConcatItems([]any{nil, nil})
	if err != nil {
		t.Logf("returned an error (fine): %v", err)
		return
	}
	if out != nil {
		t.Fatalf("want nil, got %v", out)
	}
}
