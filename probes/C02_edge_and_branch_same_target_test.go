package compose

import (
	"context"
	"reflect"
	"testing"
)

func TestProbeEdgeAndBranchToSameNode(t *testing.T) {
	ran := map[string]int{}
	node := func(key string) *Lambda {
		return InvokableLambda(func(ctx context.Context, in map[string]string) (map[string]string, error) {
			ran[key]++
			return map[string]string{key: key}, nil
		})
	}
	g := NewGraph[map[string]string, map[string]string]()
	for _, k := range []string{"a", "x", "y"} {
		if err := g.AddLambdaNode(k, node(k)); err != nil {
			t.Fatal(err)
		}
	}
	must := func(err error) {
		t.Helper()
		if err != nil {
			t.Fatal(err)
		}
	}
	must(g.AddEdge(START, "a"))
	must(g.AddEdge("a", "x")) // a always routes to x through the plain edge
	must(g.AddBranch("a", NewGraphBranch(func(ctx context.Context, in map[string]string) (string, error) {
		return "y", nil
	}, map[string]bool{"x": true, "y": true})))
	must(g.AddEdge("x", END))
	must(g.AddEdge("y", END))
	r, err := g.Compile(context.Background(), WithNodeTriggerMode(AllPredecessor))
	must(err)
	out, err := r.Invoke(context.Background(), map[string]string{"in": "in"})
	must(err)
	if ran["x"] != 1 {
		t.Errorf("x ran %d times, want 1: its only control predecessor a finished and routed to it via the edge a->x", ran["x"])
	}
	if want := map[string]string{"x": "x", "y": "y"}; !reflect.DeepEqual(out, want) {
		t.Errorf("result = %v, want %v", out, want)
	}
}
