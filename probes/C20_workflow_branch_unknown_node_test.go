package compose

import (
	"context"
	"testing"
)

// C20: Compile rejects unknown node keys with an error, never a panic. Before the fix a Workflow branch naming an
// end node that was never added made Compile dereference a nil *WorkflowNode.
func TestProbeC20WorkflowBranchUnknownNode(t *testing.T) {
	ctx := context.Background()
	wf := NewWorkflow[string, string]()
	wf.AddLambdaNode("a", InvokableLambda(func(ctx context.Context, in string) (string, error) { return in, nil })).AddInput(START)
	wf.AddLambdaNode("b", InvokableLambda(func(ctx context.Context, in string) (string, error) { return in, nil }))
	wf.AddBranch("a", NewGraphBranch(func(ctx context.Context, in string) (string, error) { return "b", nil },
		map[string]bool{"b": true, "nope": true}))
	wf.End().AddInput("b")
	defer func() {
		if p := recover(); p != nil {
			t.Fatalf("Compile panicked on a branch naming an unknown node key: %v", p)
		}
	}()
	if _, err := wf.Compile(ctx); err == nil {
		t.Fatalf("a branch naming the unknown node key \"nope\" was accepted")
	}
}
