package compose

import (
	"context"
	"testing"
)

// C20: after a successful Compile the graph can no longer be modified. Before the fix SetStaticValue on a node of a
// compiled Workflow was accepted and reached the runnable produced by the next Compile.
func TestProbeC20StaticValueAfterCompile(t *testing.T) {
	ctx := context.Background()
	wf := NewWorkflow[string, map[string]any]()
	n := wf.AddLambdaNode("a", InvokableLambda(func(ctx context.Context, in map[string]any) (map[string]any, error) { return in, nil }))
	n.AddInput(START, ToField("in"))
	wf.End().AddInput("a")
	r1, err := wf.Compile(ctx)
	if err != nil {
		t.Fatal(err)
	}
	n.SetStaticValue(FieldPath{"late"}, "after compile")
	out1, err := r1.Invoke(ctx, "x")
	if err != nil {
		t.Fatal(err)
	}
	if _, ok := out1["late"]; ok {
		t.Errorf("the compiled runnable was affected by a later SetStaticValue: %v", out1)
	}
	r2, err := wf.Compile(ctx)
	if err != nil {
		t.Logf("second compile: %v", err)
		return
	}
	out2, err := r2.Invoke(ctx, "x")
	if err == nil {
		if _, ok := out2["late"]; ok {
			t.Errorf("a compiled workflow was modified: the static value set after Compile reached the next runnable: %v", out2)
		}
	}
}
