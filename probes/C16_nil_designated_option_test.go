package compose

import (
	"context"
	"testing"
)

// C16: designating an option of the wrong type is an error. A nil option value has no type at all; before the fix
// building the error message called String() on the nil reflect.Type and the panic escaped Invoke.
func TestProbeC16NilDesignatedOption(t *testing.T) {
	ctx := context.Background()
	g := NewGraph[string, string]()
	_ = g.AddLambdaNode("a", InvokableLambdaWithOption(func(ctx context.Context, in string, opts ...string) (string, error) { return in, nil }))
	_ = g.AddEdge(START, "a")
	_ = g.AddEdge("a", END)
	r, err := g.Compile(ctx)
	if err != nil {
		t.Fatal(err)
	}
	defer func() {
		if p := recover(); p != nil {
			t.Fatalf("a nil designated option made Invoke panic instead of returning an error: %v", p)
		}
	}()
	_, err = r.Invoke(ctx, "x", WithLambdaOption(nil).DesignateNode("a"))
	if err == nil {
		t.Fatalf("a nil option designated to a node that takes string options was accepted")
	}
}
