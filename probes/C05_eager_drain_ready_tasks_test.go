package compose

import (
	"context"
	"sync"
	"testing"
)

type probeC05eState struct{ N int }

type probeC05eStore struct {
	mu sync.Mutex
	m  map[string][]byte
}

func (s *probeC05eStore) Get(_ context.Context, id string) ([]byte, bool, error) {
	s.mu.Lock()
	defer s.mu.Unlock()
	v, ok := s.m[id]
	return v, ok, nil
}
func (s *probeC05eStore) Set(_ context.Context, id string, d []byte) error {
	s.mu.Lock()
	defer s.mu.Unlock()
	s.m[id] = d
	return nil
}

// C05: tasks made ready just before the drain that precedes an interrupt must be in the checkpoint when a drained
// task turns out to ask for a rerun (eager mode); before the fix they were dropped and the resumed run failed.
// Workflow (eager DAG): START -> P, START -> A, START -> S ; B <- {P, A} ; END <- {B, S}
// schedule: P picked first, then A (interrupt-after A), S is still running and then asks for rerun.
func TestProbeC05EagerDrainKeepsReadyTasks(t *testing.T) {
	_ = RegisterSerializableType[probeC05eState]("probe_c05e_state")

	build := func(interrupt bool, store CheckPointStore) (Runnable[string, map[string]any], *int) {
		pPicked := make(chan struct{})
		aPicked := make(chan struct{})
		var pOnce, aOnce sync.Once
		sRuns := 0
		bRuns := new(int)

		wf := NewWorkflow[string, map[string]any](WithGenLocalState(func(ctx context.Context) *probeC05eState { return &probeC05eState{} }))
		wf.AddLambdaNode("P", InvokableLambda(func(ctx context.Context, in string) (string, error) {
			return in + "P", nil
		}), WithStatePostHandler(func(ctx context.Context, out string, st *probeC05eState) (string, error) {
			pOnce.Do(func() { close(pPicked) })
			return out, nil
		})).AddInput(START)
		wf.AddLambdaNode("A", InvokableLambda(func(ctx context.Context, in string) (string, error) {
			<-pPicked
			return in + "A", nil
		}), WithStatePostHandler(func(ctx context.Context, out string, st *probeC05eState) (string, error) {
			aOnce.Do(func() { close(aPicked) })
			return out, nil
		})).AddInput(START)
		wf.AddLambdaNode("S", InvokableLambda(func(ctx context.Context, in string) (string, error) {
			<-aPicked
			sRuns++
			if interrupt && sRuns == 1 {
				return "", InterruptAndRerun
			}
			return "S", nil
		})).AddInput(START)
		wf.AddLambdaNode("B", InvokableLambda(func(ctx context.Context, in map[string]any) (string, error) {
			*bRuns++
			return in["p"].(string) + "," + in["a"].(string), nil
		})).AddInput("P", ToField("p")).AddInput("A", ToField("a"))
		wf.End().AddInput("B", ToField("b")).AddInput("S", ToField("s"))

		var opts []GraphCompileOption
		if interrupt {
			opts = append(opts, WithCheckPointStore(store), WithInterruptAfterNodes([]string{"A"}))
		}
		r, err := wf.Compile(context.Background(), opts...)
		if err != nil {
			t.Fatal(err)
		}
		return r, bRuns
	}

	ctx := context.Background()
	ref, _ := build(false, nil)
	want, err := ref.Invoke(ctx, "x")
	if err != nil {
		t.Fatal(err)
	}

	r, bRuns := build(true, &probeC05eStore{m: map[string][]byte{}})
	_, err = r.Invoke(ctx, "x", WithCheckPointID("cp"))
	info, ok := ExtractInterruptInfo(err)
	if !ok {
		t.Fatalf("expected interrupt, got %v", err)
	}
	t.Logf("interrupt info: after=%v rerun=%v", info.AfterNodes, info.RerunNodes)
	var got map[string]any
	for i := 0; i < 5; i++ {
		got, err = r.Invoke(ctx, "x", WithCheckPointID("cp"))
		if _, ok := ExtractInterruptInfo(err); ok {
			continue
		}
		break
	}
	if err != nil {
		t.Fatalf("resume failed (B ran %d times): %v", *bRuns, err)
	}
	if got["b"] != want["b"] || got["s"] != want["s"] {
		t.Fatalf("got %v want %v", got, want)
	}
}
