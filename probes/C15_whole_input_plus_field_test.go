package compose

import (
	"context"
	"testing"
)

type probeC15WholeIn struct {
	A string
	M map[string]any
}

// C15: a mapping set that assigns a path together with one of its prefixes is rejected at compile time. The empty
// target path (FromField: the whole input) is a prefix of every path. Before the fix {"" , "Y"} was accepted, the
// result depended on map iteration order and the predecessor's own map was written to.
func TestProbeC15WholeInputPlusField(t *testing.T) {
	ctx := context.Background()
	wf := NewWorkflow[probeC15WholeIn, map[string]any]()
	wf.End().AddInput(START, FromField("M"), MapFields("A", "Y"))
	if _, err := wf.Compile(ctx); err == nil {
		t.Errorf("mapping set {\"\" (whole input), \"Y\"} in one AddInput was accepted by Compile")
	}

	wf2 := NewWorkflow[probeC15WholeIn, map[string]any]()
	wf2.AddLambdaNode("p", InvokableLambda(func(ctx context.Context, in probeC15WholeIn) (probeC15WholeIn, error) { return in, nil })).AddInput(START)
	wf2.End().AddInput(START, FromField("M")).AddInput("p", MapFields("A", "Y"))
	if _, err := wf2.Compile(ctx); err == nil {
		t.Errorf("whole input from START and field Y from p (two AddInput calls) were accepted by Compile")
	}

	// still fine: the whole input alone
	wf3 := NewWorkflow[probeC15WholeIn, map[string]any]()
	wf3.End().AddInput(START, FromField("M"))
	r, err := wf3.Compile(ctx)
	if err != nil {
		t.Fatalf("whole input alone rejected: %v", err)
	}
	out, err := r.Invoke(ctx, probeC15WholeIn{M: map[string]any{"k": "v"}})
	if err != nil || out["k"] != "v" {
		t.Fatalf("whole input alone: %v %v", out, err)
	}
}
