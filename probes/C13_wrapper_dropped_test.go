package compose

import (
	"context"
	"errors"
	"fmt"
	"testing"
)

func TestProbeWrapDropsOuter(t *testing.T) {
	inner := newGraphRunError(errors.New("boom"))
	w := fmt.Errorf("node wrapper: %w", inner)
	res := wrapGraphNodeError("n1", w)
	if !errors.Is(res, w) {
		t.Fatalf("errors.Is(result, wrapper) = false; result=%v", res)
	}
}

func TestProbeWrapDropsOuterE2E(t *testing.T) {
	ctx := context.Background()
	sub := NewGraph[string, string]()
	_ = sub.AddLambdaNode("s", InvokableLambda(func(ctx context.Context, in string) (string, error) { return "", errors.New("boom") }))
	_ = sub.AddEdge(START, "s")
	_ = sub.AddEdge("s", END)
	sr, err := sub.Compile(ctx)
	if err != nil { t.Fatal(err) }
	var wrapper error
	g := NewGraph[string, string]()
	_ = g.AddLambdaNode("outer", InvokableLambda(func(ctx context.Context, in string) (string, error) {
		_, e := sr.Invoke(ctx, in)
		wrapper = fmt.Errorf("calling sub failed: %w", e)
		return "", wrapper
	}))
	_ = g.AddEdge(START, "outer")
	_ = g.AddEdge("outer", END)
	r, err := g.Compile(ctx)
	if err != nil { t.Fatal(err) }
	_, err = r.Invoke(ctx, "x")
	if !errors.Is(err, wrapper) {
		t.Fatalf("node's own error not recoverable with errors.Is: %v", err)
	}
}
