package compose

import (
	"context"
	"testing"
)

type probeRecIn struct{ A string }
type probeRecOut struct{ B string }

// TestProbeRecompileCorruptsRunnable: compiling a workflow with field mappings a second time must not change the
// behaviour of the runnable obtained from the first Compile (and must not make either of them panic).
func TestProbeRecompileCorruptsRunnable(t *testing.T) {
	ctx := context.Background()
	wf := NewWorkflow[probeRecIn, probeRecOut]()
	wf.AddLambdaNode("n", InvokableLambda(func(ctx context.Context, in probeRecIn) (probeRecOut, error) {
		return probeRecOut{B: in.A + "!"}, nil
	})).AddInput(START, MapFields("A", "A"))
	wf.End().AddInput("n", MapFields("B", "B"))
	r1, err := wf.Compile(ctx)
	if err != nil {
		t.Fatal(err)
	}
	out, err := r1.Invoke(ctx, probeRecIn{A: "x"})
	if err != nil || out.B != "x!" {
		t.Fatalf("first invoke: %v %v", out, err)
	}
	r2, err := wf.Compile(ctx)
	t.Logf("second compile err: %v", err)
	defer func() {
		if p := recover(); p != nil {
			t.Fatalf("a runnable panicked after the graph was compiled a second time: %v", p)
		}
	}()
	out, err = r1.Invoke(ctx, probeRecIn{A: "x"})
	if err != nil || out.B != "x!" {
		t.Fatalf("first runnable changed by a later Compile: %v %v", out, err)
	}
	if r2 != nil {
		out, err = r2.Invoke(ctx, probeRecIn{A: "y"})
		if err != nil || out.B != "y!" {
			t.Fatalf("second runnable: %v %v", out, err)
		}
	}
}
