package compose

import (
	"context"
	"testing"
)

// TestProbeSetNodeKeyAliases: a parent context whose node path has spare capacity (depth 3 => len 3, cap 4 after
// Go's append growth); two sibling node contexts derived from it must keep their own last path element.
func TestProbeSetNodeKeyAliases(t *testing.T) {
	ctx := context.Background()
	ctx = setNodeKey(ctx, "a")
	ctx = setNodeKey(ctx, "b")
	ctx = setNodeKey(ctx, "c")
	p, _ := getNodeKey(ctx)
	t.Logf("parent path len=%d cap=%d", len(p.path), cap(p.path))
	c1 := setNodeKey(ctx, "left")
	c2 := setNodeKey(ctx, "right")
	p1, _ := getNodeKey(c1)
	p2, _ := getNodeKey(c2)
	if p1.path[len(p1.path)-1] != "left" {
		t.Fatalf("left sibling's path is %v (right sibling: %v)", p1.path, p2.path)
	}
}
