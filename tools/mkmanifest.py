#!/usr/bin/env python3
"""Regenerates /verif/MANIFEST.json from tools/claims.json (claimed properties with level notes)."""
import json, subprocess
props = [json.loads(l) for l in open('/verif/properties.jsonl')]
claims = json.load(open('/verif/tools/claims.json'))
hooks = subprocess.run(['git','-C','/repo','log','--format=%H %s'],capture_output=True,text=True).stdout.strip().split('\n')
hook_commits = [l.split()[0] for l in hooks if ' verif hook' in l]
checks = []
na = []
for p in props:
    pid = p['id']
    c = claims.get(pid)
    if not c or c.get('not_applicable'):
        na.append({"property_id": pid, "reason": (c or {}).get('reason', 'not yet claimed: no contracts discharged for this property (see DESIGN.md)')})
        continue
    checks.append({
        "property_id": pid,
        "quick_cmd": f"./check {pid} --tier quick",
        "thorough_cmd": f"./check {pid} --tier thorough",
        "evidence_file": f"/verif/evidence/{pid}.json",
        "replay_cmd_template": "./check replay {path}",
        "engine": "govc",
        "level_claimed": {"category": "proof", "text": c['text'], "design_ref": c.get('design_ref', f"DESIGN.md section 3 ({pid})")},
        "level_note": c['note'],
        "technique": "contract-based deductive verification: //@ contracts on the real Go functions, VCs generated from the typed AST by govc, discharged by z3/cvc5",
    })
m = {
 "version": 1,
 "setup_cmd": "cd /verif/engine && GOFLAGS=-mod=mod GOPROXY=off GOSUMDB=off GOTOOLCHAIN=local go build -o /verif/bin/govc ./cmd/govc",
 "hooks": {"guard": "verif", "enable": "-tags verif (contract files zz_contracts_verif.go are comment-only and carry //go:build verif)",
           "baseline_off_cmd": "cd /repo && go test -mod=mod -json -vet=off -count=1 -timeout 25m ./...",
           "source_commits": hook_commits, "add_only": True},
 "engines": [{"name": "govc", "path": "/verif/engine", "serves_properties": [c["property_id"] for c in checks],
              "kind_free_text": "self-written VC generator over the typed Go AST (go/packages) + Gobra-style //@ contracts kept in build-tagged comment-only files in /repo; obligations discharged by z3 4.8.12 / z3 5.1.0 / cvc5 1.0.3 raced per obligation"}],
 "checks": checks,
 "notes": "See DESIGN.md. known_findings.txt lists findings and fixed defects; selftest/ holds the must-fail corpus; seeded/ holds independently seeded breaking changes.",
 "not_applicable": na,
}
json.dump(m, open('/verif/MANIFEST.json','w'), indent=1)
print(len(checks), 'claimed;', len(na), 'not applicable')
