#!/bin/bash
# recheck_seeds.sh [name...]: run the property check against a scratch copy of /repo with each recorded seeded change
# applied, and refresh "caught" / "check_result_on_patched_tree" in /verif/seeded/<name>/meta.json.
set -u
export GOFLAGS=-mod=mod GOPROXY=off GOSUMDB=off GOTOOLCHAIN=local
cd /verif
names=("$@"); [ ${#names[@]} -eq 0 ] && names=($(ls seeded))
for n in "${names[@]}"; do
  d=/verif/seeded/$n
  prop=$(python3 -c "import json;print(json.load(open('$d/meta.json'))['property'])")
  scr=$(mktemp -d /dev/shm/seedre-XXXXXX)
  rsync -a --exclude .git /repo/ "$scr/"
  if ! (cd "$scr" && patch -p1 -s --no-backup-if-mismatch < "$d/patch.diff"); then echo "$n: patch does not apply"; rm -rf "$scr"; continue; fi
  (cd "$scr" && go build ./... ) || { echo "$n: does not build"; rm -rf "$scr"; continue; }
  viol=$(/verif/bin/govc check -prop "$prop" -root "$scr" -verif "$scr/.verif-out" -no-evidence 2>&1 | grep -A1 '^VIOLATION' | grep obligation | sed 's/^ *obligation //' | cut -c1-160)
  python3 - "$d/meta.json" "$viol" <<'PY'
import json,sys
m=json.load(open(sys.argv[1]))
m['check_result_on_patched_tree']=[l for l in sys.argv[2].split('\n') if l.strip()]
m['caught']=bool(m['check_result_on_patched_tree'])
json.dump(m,open(sys.argv[1],'w'),indent=1)
PY
  echo "$n ($prop): caught=$([ -n "$viol" ] && echo yes || echo NO)"; echo "$viol" | head -3 | sed 's/^/    /'
  rm -rf "$scr"
done
