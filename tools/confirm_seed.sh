#!/bin/bash
# confirm_seed.sh <PROP> <outdir> [name]: confirm a seeded breaking change independently and record it under /verif/seeded/<name>/
# outdir must hold patch.diff, zz_seed_demo_test.go, meta.json (with optional "demo_dir").
set -u
export GOFLAGS=-mod=mod GOPROXY=off GOSUMDB=off GOTOOLCHAIN=local
prop="$1"; out="$2"; name="${3:-$prop}"
demo_dir=$(python3 -c "import json;print(json.load(open('$out/meta.json')).get('demo_dir','compose'))" 2>/dev/null || echo compose)
demo_dir=${demo_dir#/tmp/seed_*/}; demo_dir=${demo_dir#./}
scr=$(mktemp -d /dev/shm/seedconf-XXXXXX)
rsync -a --exclude .git /repo/ "$scr/"
cd "$scr" || exit 2
res() { echo "$1=$2"; }
patch -p1 -s --no-backup-if-mismatch < "$out/patch.diff" || { echo "patch does not apply"; rm -rf "$scr"; exit 2; }
go build ./... >/dev/null 2>&1; res build_with_change $?
go test -vet=off -count=1 -timeout 10m ./... > "$scr/suite.log" 2>&1; suite=$?; res suite_with_change $suite
cp "$out/zz_seed_demo_test.go" "$scr/$demo_dir/zz_seed_demo_test.go"
go test -vet=off -count=1 -timeout 120s -run 'TestSeedDemo$' "./$demo_dir/" > "$scr/demo_with.log" 2>&1; dw=$?; res demo_with_change $dw
# my checks against the patched copy
viol=$(/verif/bin/govc check -prop "$prop" -root "$scr" -verif "$scr/.verif-out" -no-evidence 2>&1 | grep -A1 '^VIOLATION' | grep obligation | sed 's/^ *obligation //' | cut -c1-160)
patch -p1 -R -s --no-backup-if-mismatch < "$out/patch.diff"
go test -vet=off -count=1 -timeout 120s -run 'TestSeedDemo$' "./$demo_dir/" > "$scr/demo_without.log" 2>&1; dwo=$?; res demo_without_change $dwo
echo "check_reports:"; echo "$viol" | head -5
ok=0; [ $suite -eq 0 ] && [ $dw -ne 0 ] && [ $dwo -eq 0 ] && ok=1
if [ $ok -eq 1 ]; then
  d=/verif/seeded/$name; mkdir -p "$d"
  cp "$out/patch.diff" "$d/patch.diff"; cp "$out/zz_seed_demo_test.go" "$d/"
  python3 - "$out/meta.json" "$d/meta.json" "$prop" "$demo_dir" "$viol" <<'PY'
import json,sys
m=json.load(open(sys.argv[1]))
m['property']=sys.argv[3]; m['demo_dir']=sys.argv[4]
m['confirmed_by_me']={'full_suite_passes_with_change':True,'demo_fails_with_change':True,'demo_passes_without_change':True,
  'how':'tools/confirm_seed.sh: scratch copy of /repo, patch applied, go build + full go test, demo test with and without the patch'}
m['check_result_on_patched_tree']=[l for l in sys.argv[5].split('\n') if l.strip()]
m['caught']=bool(m['check_result_on_patched_tree'])
json.dump(m,open(sys.argv[2],'w'),indent=1)
PY
  echo "recorded in $d (caught=$([ -n "$viol" ] && echo yes || echo NO))"
else
  echo "NOT confirmed (suite=$suite demo_with=$dw demo_without=$dwo)"; tail -5 "$scr/demo_with.log"
fi
rm -rf "$scr"
