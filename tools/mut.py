#!/usr/bin/env python3
"""mut.py <prop> <name> <expect-substring> <file-relative-to-repo> <old> <new> [<old2> <new2> ...]
Writes selftest/mutants/<prop>/<name>.diff (a -p1 patch) without touching /repo."""
import sys, difflib, os
prop, name, expect, rel = sys.argv[1:5]
pairs = sys.argv[5:]
src = open('/repo/' + rel).read()
new = src
for i in range(0, len(pairs), 2):
    old, rep = pairs[i], pairs[i+1]
    old = old.encode().decode('unicode_escape'); rep = rep.encode().decode('unicode_escape')
    if new.count(old) < 1:
        sys.exit(f"pattern not found: {old!r}")
    new = new.replace(old, rep, 1)
d = difflib.unified_diff(src.splitlines(True), new.splitlines(True), 'a/' + rel, 'b/' + rel)
os.makedirs(f'/verif/selftest/mutants/{prop}', exist_ok=True)
with open(f'/verif/selftest/mutants/{prop}/{name}.diff', 'w') as f:
    f.write(f'# expect: {expect}\n')
    f.writelines(d)
print('wrote', f'selftest/mutants/{prop}/{name}.diff')
