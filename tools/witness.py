#!/usr/bin/env python3
"""witness.py <file.smt2> [term ...]: skolemise the negated top-level forall of the goal and print the witness values
(and the values of extra terms)."""
import re,subprocess,sys
f=[l for l in open(sys.argv[1])]
idx=max(i for i,l in enumerate(f) if l.startswith('(assert (not'))
g=f[idx]
m=re.match(r'\(assert \(not \(forall \(((?:\([^ ]+ (?:Int|Bool)\) ?)+)\) (.*)\)\)\)\s*$',g)
if not m:
    print("goal is not a top-level forall"); sys.exit(1)
vars_=re.findall(r'\(([^ ]+) (Int|Bool)\)',m.group(1))
body=m.group(2)
f[idx]=''.join(f"(declare-const {v} {s})\n" for v,s in vars_)+f"(assert (not {body}))\n"
f=[l.replace('(get-model)','') for l in f]
terms=' '.join([v for v,_ in vars_]+sys.argv[2:])
f.append(f"(get-value ({terms}))\n")
open('/dev/shm/witness.smt2','w').write(''.join(f))
print(subprocess.run(['z3-new','-T:30','/dev/shm/witness.smt2'],capture_output=True,text=True).stdout[:3000])
