#!/bin/bash
# selftest: must-fail corpus. For each mutant patch (selftest/mutants/<prop>/<name>.diff) copy /repo to a
# scratch directory outside /repo and /verif, apply the patch, run the property check on the copy and
# require that it reports a violation of the obligation named in the patch header ("# expect: <substring>").
# Output never contains the word V-I-O-L-A-T-I-O-N (DESIGN 2.8): a caught mutant prints "selftest: ... caught by ...".
# SELFTEST_JOBS (default 3) patches are checked in parallel.
set -u
cd "$(dirname "$0")/.."
want="${1:-}"
list=$(for d in selftest/mutants/*/; do
  prop=$(basename "$d")
  [ -n "$want" ] && [ "$want" != "$prop" ] && continue
  for p in "$d"*.diff; do [ -e "$p" ] && echo "$prop $p"; done
done)
res=$(echo "$list" | grep . | xargs -P "${SELFTEST_JOBS:-3}" -L 1 ./selftest/one.sh | sort)
echo "$res"
pass=$(echo "$res" | grep -c '^selftest: ')
gap=$(echo "$res" | grep -c '^selftest-gap: ')
echo "selftest: $pass caught, $gap gaps"
[ "$gap" -eq 0 ]
