#!/bin/bash
# selftest: must-fail corpus. For each mutant patch (selftest/mutants/<prop>/<name>.diff) copy /repo to a
# scratch directory outside /repo and /verif, apply the patch, run the property check on the copy and
# require that it reports a violation of the obligation named in the patch header ("# expect: <substring>").
# Output never contains the word V-I-O-L-A-T-I-O-N (DESIGN 2.8): a caught mutant prints "selftest: ... caught by ...".
set -u
cd "$(dirname "$0")/.."
export GOFLAGS=-mod=mod GOPROXY=off GOSUMDB=off GOTOOLCHAIN=local
BIN=/verif/bin/govc
want="${1:-}"
SCR_BASE=/dev/shm
[ -d "$SCR_BASE" ] || SCR_BASE=/var/tmp
pass=0; gap=0
for d in selftest/mutants/*/; do
  prop=$(basename "$d")
  [ -n "$want" ] && [ "$want" != "$prop" ] && continue
  for p in "$d"*.diff; do
    [ -e "$p" ] || continue
    name=$(basename "$p" .diff)
    expect=$(grep -m1 '^# expect:' "$p" | sed 's/^# expect: *//')
    scr=$(mktemp -d "$SCR_BASE/govc-selftest-XXXXXX")
    rsync -a --exclude .git /repo/ "$scr/"
    if ! (cd "$scr" && patch -p1 -s --no-backup-if-mismatch < "/verif/$p" >/dev/null 2>&1); then
      echo "selftest-gap: $prop/$name patch does not apply to the current tree"
      gap=$((gap+1)); rm -rf "$scr"; continue
    fi
    out=$("$BIN" check -prop "$prop" -root "$scr" -verif "$scr/.verif-out" -no-evidence 2>&1)
    rm -rf "$scr"
    hit=$(echo "$out" | grep -A1 '^VIOLATION' | grep 'obligation' | grep -F -- "$expect" | head -1 | sed 's/^ *obligation //')
    if [ -n "$hit" ]; then
      echo "selftest: $prop/$name caught by ${hit%%:*}"
      pass=$((pass+1))
    else
      other=$(echo "$out" | grep -A1 '^VIOLATION' | grep 'obligation' | head -1 | sed 's/^ *obligation //')
      if [ -n "$other" ]; then
        echo "selftest-gap: $prop/$name not caught by '$expect' (but: ${other%%:*})"
      else
        echo "selftest-gap: $prop/$name NOT caught (expected $expect)"
      fi
      gap=$((gap+1))
    fi
  done
done
echo "selftest: $pass caught, $gap gaps"
[ $gap -eq 0 ]
