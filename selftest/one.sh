#!/bin/bash
# one.sh <prop> <patch>: apply one must-fail patch to a scratch copy of /repo and run the property's check on it.
set -u
cd "$(dirname "$0")/.."
export GOFLAGS=-mod=mod GOPROXY=off GOSUMDB=off GOTOOLCHAIN=local
BIN=/verif/bin/govc
prop="$1"; p="$2"
SCR_BASE=/dev/shm; [ -d "$SCR_BASE" ] || SCR_BASE=/var/tmp
name=$(basename "$p" .diff)
expect=$(grep -m1 '^# expect:' "$p" | sed 's/^# expect: *//')
scr=$(mktemp -d "$SCR_BASE/govc-selftest-XXXXXX")
rsync -a --exclude .git /repo/ "$scr/"
if ! (cd "$scr" && patch -p1 -s --no-backup-if-mismatch < "/verif/$p" >/dev/null 2>&1); then
  echo "selftest-gap: $prop/$name patch does not apply to the current tree"; rm -rf "$scr"; exit 0
fi
out=$("$BIN" check -prop "$prop" -root "$scr" -verif "$scr/.verif-out" -no-evidence 2>&1)
rm -rf "$scr"
hit=$(echo "$out" | grep -A1 '^VIOLATION' | grep 'obligation' | grep -F -- "$expect" | head -1 | sed 's/^ *obligation //')
if [ -n "$hit" ]; then
  echo "selftest: $prop/$name caught by ${hit%%:*}"
else
  other=$(echo "$out" | grep -A1 '^VIOLATION' | grep 'obligation' | head -1 | sed 's/^ *obligation //')
  if [ -n "$other" ]; then
    echo "selftest-gap: $prop/$name not caught by '$expect' (but: ${other%%:*})"
  else
    echo "selftest-gap: $prop/$name NOT caught (expected $expect)"
  fi
fi
