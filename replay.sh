#!/bin/bash
# replay.sh <replay.json>: re-decide the failed obligation recorded in a replay file with all three solvers and print
# the counterexample values. This replays the VERIFIER's query, not the real code: there is no automatic replay of a
# counterexample on /repo (DESIGN.md 7.1); every VIOLATION line therefore ends with no-failing-input-found.
set -u
f="${1:?usage: replay.sh <replay.json>}"
tmp=$(mktemp -d /dev/shm/govc-replay-XXXXXX)
python3 - "$f" "$tmp/q.smt2" <<'PY'
import json,sys
d=json.load(open(sys.argv[1]))
print("property   :", d.get("property"))
print("obligation :", d.get("obligation"))
print("function   :", d.get("function"), "at", d.get("at"))
print("clause     :", d.get("clause"))
print("status     :", d.get("status"), "/", d.get("verdict"))
m=d.get("model") or ""
print("counterexample values reported by the solver (inputs first):")
print("\n".join("  "+l for l in m.splitlines()[:40]))
open(sys.argv[2],"w").write(d.get("smt_query") or "")
PY
if [ -s "$tmp/q.smt2" ]; then
  for s in "z3-new -T:30" "z3 -T:30" "cvc5 --lang=smt2 --tlimit=30000"; do
    echo "re-running: $s"; $s "$tmp/q.smt2" 2>&1 | head -1 | sed 's/^/  answer: /'
  done
fi
rm -rf "$tmp"
