// govc: contract-based deductive verifier for the eino packages (see /verif/DESIGN.md).
package main

import (
	"flag"
	"fmt"
	"os"
	"strings"

	"govc/check"
	"govc/vc"
)

func main() {
	if len(os.Args) < 2 {
		fmt.Fprintln(os.Stderr, "usage: govc <verify|check|selftest|replay|list> [flags]")
		os.Exit(2)
	}
	cmd := os.Args[1]
	if cmd == "solverd" {
		vc.ServeSolvers(os.Stdin, os.Stdout)
		return
	}
	vc.StartSolverHelper()
	fs := flag.NewFlagSet(cmd, flag.ExitOnError)
	root := fs.String("root", "/repo", "repository root to verify")
	verif := fs.String("verif", "/verif", "verif directory (known findings, baseline, evidence, replays)")
	prop := fs.String("prop", "", "property id")
	tier := fs.String("tier", "quick", "quick | thorough")
	fn := fs.String("func", "", "substring filter on function ids (verify)")
	verbose := fs.Bool("v", false, "verbose")
	keep := fs.String("keep", "", "directory to keep SMT queries in")
	noEvidence := fs.Bool("no-evidence", false, "do not write the evidence file")
	fs.Parse(os.Args[2:])
	opts := check.Options{Root: *root, Verif: *verif, Prop: *prop, Tier: *tier, Filter: *fn, Verbose: *verbose, KeepDir: *keep, NoEvidence: *noEvidence}
	if v := os.Getenv("VERIF_TIER"); v != "" && !flagSet(fs, "tier") {
		opts.Tier = v
	}
	if v := os.Getenv("VERIF_SEED"); v != "" {
		fmt.Sscanf(v, "%d", &opts.Seed)
	}
	var code int
	switch cmd {
	case "verify":
		code = check.Verify(opts)
	case "check":
		code = check.Check(opts)
	case "list":
		code = check.List(opts)
	case "rebaseline":
		code = check.Rebaseline(opts)
	default:
		fmt.Fprintln(os.Stderr, "unknown command", cmd)
		code = 2
	}
	os.Exit(code)
}

func flagSet(fs *flag.FlagSet, name string) bool {
	found := false
	fs.Visit(func(f *flag.Flag) {
		if strings.EqualFold(f.Name, name) {
			found = true
		}
	})
	return found
}
