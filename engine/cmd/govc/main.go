package main

import (
	"fmt"
	"golang.org/x/tools/go/packages"
)

func main() {
	cfg := &packages.Config{Mode: packages.NeedName | packages.NeedSyntax | packages.NeedTypes | packages.NeedTypesInfo | packages.NeedFiles | packages.NeedImports | packages.NeedDeps, Dir: "/repo", BuildFlags: []string{"-tags=verif"}}
	pkgs, err := packages.Load(cfg, "./compose")
	fmt.Println(len(pkgs), err)
}
