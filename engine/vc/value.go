package vc

import (
	"fmt"
	"go/types"
	"strings"
)

// Value is a symbolic Go value: a scalar term, a struct (field values) or a slice header.
type Value struct {
	T      types.Type
	Term   *Term   // scalar
	Fields []Value // struct value
	Sl     *SliceVal
	Fn     *callTarget // statically known function behind a func value (not part of the symbolic state)
}

type SliceVal struct{ Arr, Off, Len, Cap *Term }

type valKind int

const (
	kBool valKind = iota
	kInt          // integers (mathematical, A-INT)
	kString
	kRef   // pointer, map, chan, func, unsafe pointer: an integer reference, 0 = nil
	kIface // interface value: box id, 0 = nil
	kOpaque
	kStruct
	kSlice
	kUnsupported
)

func typeStr(t types.Type) string {
	return types.TypeString(t, func(p *types.Package) string { return p.Name() })
}

func isReflectType(t types.Type) bool {
	if n, ok := t.(*types.Named); ok {
		o := n.Obj()
		return o.Pkg() != nil && o.Pkg().Path() == "reflect" && o.Name() == "Type"
	}
	return false
}

func isContextType(t types.Type) bool {
	if n, ok := t.(*types.Named); ok {
		o := n.Obj()
		return o.Pkg() != nil && o.Pkg().Path() == "context" && o.Name() == "Context"
	}
	return false
}

func kindOf(t types.Type) valKind {
	if t == nil {
		return kRef
	}
	if isReflectType(t) {
		return kOpaque // a reflect.Type is represented by its type id
	}
	if isContextType(t) {
		return kRef // contexts are references into the persistent-map model of context.Context
	}
	switch u := t.Underlying().(type) {
	case *types.Basic:
		switch {
		case u.Info()&types.IsBoolean != 0:
			return kBool
		case u.Info()&types.IsInteger != 0:
			return kInt
		case u.Info()&types.IsString != 0:
			return kString
		case u.Kind() == types.UnsafePointer:
			return kRef
		case u.Kind() == types.UntypedNil:
			return kRef
		case u.Info()&types.IsFloat != 0, u.Info()&types.IsComplex != 0:
			return kOpaque
		}
		return kUnsupported
	case *types.Pointer, *types.Map, *types.Chan, *types.Signature:
		return kRef
	case *types.Interface:
		if _, ok := t.(*types.TypeParam); ok {
			return kOpaque
		}
		return kIface
	case *types.Struct:
		return kStruct
	case *types.Slice:
		return kSlice
	case *types.Array:
		return kUnsupported
	}
	if _, ok := t.(*types.TypeParam); ok {
		return kOpaque
	}
	return kUnsupported
}

func sortOf(t types.Type) Sort {
	if kindOf(t) == kBool {
		return SBool
	}
	return SInt
}

func isUnsigned(t types.Type) bool {
	if b, ok := t.Underlying().(*types.Basic); ok {
		return b.Info()&types.IsUnsigned != 0
	}
	return false
}

type leaf struct {
	Path string
	Sort Sort
	T    types.Type // Go type of the leaf (slice header parts: int)
}

var intType = types.Typ[types.Int]

func leavesOf(t types.Type) []leaf {
	switch kindOf(t) {
	case kStruct:
		st := t.Underlying().(*types.Struct)
		var out []leaf
		for i := 0; i < st.NumFields(); i++ {
			f := st.Field(i)
			for _, l := range leavesOf(f.Type()) {
				out = append(out, leaf{Path: "." + f.Name() + l.Path, Sort: l.Sort, T: l.T})
			}
		}
		return out
	case kSlice:
		return []leaf{{"#arr", SInt, nil}, {"#off", SInt, intType}, {"#len", SInt, intType}, {"#cap", SInt, intType}}
	case kUnsupported:
		panic(unsupported("type " + typeStr(t)))
	}
	return []leaf{{"", sortOf(t), t}}
}

func flatten(v Value) []*Term {
	switch {
	case v.Sl != nil:
		return []*Term{v.Sl.Arr, v.Sl.Off, v.Sl.Len, v.Sl.Cap}
	case v.Fields != nil || kindOf(v.T) == kStruct:
		var out []*Term
		for _, f := range v.Fields {
			out = append(out, flatten(f)...)
		}
		return out
	}
	if v.Term == nil {
		panic("flatten: empty value of type " + typeStr(v.T))
	}
	return []*Term{v.Term}
}

func unflatten(t types.Type, ts []*Term) Value {
	v, rest := unflattenN(t, ts)
	if len(rest) != 0 {
		panic("unflatten: leftover leaves")
	}
	return v
}

func unflattenN(t types.Type, ts []*Term) (Value, []*Term) {
	switch kindOf(t) {
	case kStruct:
		st := t.Underlying().(*types.Struct)
		v := Value{T: t, Fields: make([]Value, st.NumFields())}
		for i := 0; i < st.NumFields(); i++ {
			v.Fields[i], ts = unflattenN(st.Field(i).Type(), ts)
		}
		return v, ts
	case kSlice:
		return Value{T: t, Sl: &SliceVal{ts[0], ts[1], ts[2], ts[3]}}, ts[4:]
	}
	return Value{T: t, Term: ts[0]}, ts[1:]
}

// Unsupported marks a construct outside the accepted subset; the generator refuses the function.
type Unsupported struct{ Msg string }

func (u Unsupported) Error() string { return "unsupported: " + u.Msg }
func unsupported(format string, a ...any) Unsupported {
	return Unsupported{fmt.Sprintf(format, a...)}
}

func (v Value) String() string {
	switch {
	case v.Sl != nil:
		return fmt.Sprintf("slice(%s,%s,%s,%s)", v.Sl.Arr, v.Sl.Off, v.Sl.Len, v.Sl.Cap)
	case v.Fields != nil:
		var p []string
		for _, f := range v.Fields {
			p = append(p, f.String())
		}
		return "{" + strings.Join(p, ", ") + "}"
	case v.Term != nil:
		return v.Term.String()
	}
	return "<empty>"
}
