package vc

import (
	"fmt"
	"go/token"
	"go/types"
	"strings"
)

// speceval.go: evaluation of contract expressions to terms.

type specEnv struct {
	x       *fnv
	s       *State // heap read by the expression; typing facts go to its sink
	old     *State // heap for old()
	pkgPath string
	vars    map[string]Value
	lp      *loopCtx
	pos     token.Pos // position used to resolve local identifiers (NoPos: package scope only)
	depth   int
	pol     int // +1: the formula is a goal, -1: an assumption, 0: unknown (typing facts under binders are dropped)
}

// goal / assumption evaluate a clause with the given polarity.
func (e *specEnv) goal(ex SExpr) *Term       { e.pol = 1; return e.evalBool(ex) }
func (e *specEnv) assumption(ex SExpr) *Term { e.pol = -1; return e.evalBool(ex) }

func (e *specEnv) withPol(p int) *specEnv {
	n := *e
	n.pol = p
	return &n
}

func (x *fnv) newSpecEnv(s, old *State, pkgPath string) *specEnv {
	return &specEnv{x: x, s: s, old: old, pkgPath: pkgPath, vars: map[string]Value{}}
}

func (e *specEnv) sub() *specEnv {
	n := *e
	n.vars = make(map[string]Value, len(e.vars))
	for k, v := range e.vars {
		n.vars[k] = v
	}
	return &n
}

type specFail struct{ msg string }

func (e *specEnv) fail(format string, a ...any) {
	panic(specFail{fmt.Sprintf(format, a...)})
}

// bindLocals makes the function's locals visible by name at the current position.
func (x *fnv) bindLocals(env *specEnv, lp *loopCtx) {
	env.lp = lp
	env.pos = x.curPos
	for n, v := range x.paramVals {
		if (strings.HasPrefix(n, "arg") || strings.HasPrefix(n, "param")) && v.T != nil {
			if _, ok := env.vars[n]; !ok {
				env.vars[n] = v
			}
		}
	}
	if lp != nil && lp.pos.IsValid() {
		env.pos = lp.pos
	}
}

func (e *specEnv) tpkg() *types.Package {
	if pk := e.x.p.Pkgs[e.pkgPath]; pk != nil {
		return pk.Types
	}
	return nil
}

func (e *specEnv) resolveType(src string) types.Type {
	pk := e.tpkg()
	if pk == nil {
		e.fail("cannot resolve type %q: package %s not loaded", src, e.pkgPath)
	}
	if t := e.resolveGeneric(pk, src); t != nil {
		return t
	}
	tv, err := types.Eval(e.x.p.Fset, pk, token.NoPos, src)
	if err == nil && tv.IsType() {
		return tv.Type
	}
	// imported names are file-scoped: retry in the scope of each file of the package
	if lp := e.x.p.Pkgs[e.pkgPath]; lp != nil {
		for _, f := range lp.Syntax {
			tv2, err2 := types.Eval(e.x.p.Fset, pk, f.Name.End(), src)
			if err2 == nil && tv2.IsType() {
				return tv2.Type
			}
		}
	}
	e.fail("cannot resolve type %q: %v", src, err)
	return nil
}

// importedObject resolves pkgname.Name through the imports of the files of the contract's package.
func (e *specEnv) importedObject(pkgName, name string) types.Object {
	lp := e.x.p.Pkgs[e.pkgPath]
	if lp == nil {
		return nil
	}
	if lp.Types.Scope().Lookup(pkgName) != nil {
		return nil // a package-level object shadows nothing here: it is not an import
	}
	for _, f := range lp.Syntax {
		sc := lp.TypesInfo.Scopes[f]
		if sc == nil {
			continue
		}
		if pn, ok := sc.Lookup(pkgName).(*types.PkgName); ok {
			return pn.Imported().Scope().Lookup(name)
		}
	}
	return nil
}

// resolveGeneric resolves `*Name` / `[]Name` / `Name` where Name is a generic type of the package written without
// type arguments: it is instantiated with the type parameters of the function under verification (the receiver's
// type arguments for a method, the function's own type parameters otherwise).
func (e *specEnv) resolveGeneric(pk *types.Package, src string) types.Type {
	rest := strings.TrimSpace(src)
	var wraps []string
	for {
		if strings.HasPrefix(rest, "*") {
			wraps = append(wraps, "*")
			rest = rest[1:]
		} else if strings.HasPrefix(rest, "[]") {
			wraps = append(wraps, "[]")
			rest = rest[2:]
		} else {
			break
		}
	}
	if rest == "" || strings.ContainsAny(rest, "[]. (){}") {
		return nil
	}
	wrap := func(t types.Type) types.Type {
		for i := len(wraps) - 1; i >= 0; i-- {
			if wraps[i] == "*" {
				t = types.NewPointer(t)
			} else {
				t = types.NewSlice(t)
			}
		}
		return t
	}
	// a type parameter of the function under verification (of its enclosing function for a literal)
	{
		ofi := e.x.fi
		for ofi != nil && ofi.Lit != nil && ofi.Outer != nil {
			ofi = ofi.Outer
		}
		if ofi != nil && ofi.Sig != nil {
			for _, l := range []*types.TypeParamList{ofi.Sig.TypeParams(), ofi.Sig.RecvTypeParams()} {
				for i := 0; l != nil && i < l.Len(); i++ {
					if l.At(i).Obj().Name() == rest {
						return wrap(l.At(i))
					}
				}
			}
		}
	}
	tn, ok := pk.Scope().Lookup(rest).(*types.TypeName)
	if !ok {
		return nil
	}
	named, ok := tn.Type().(*types.Named)
	if !ok || named.TypeParams().Len() == 0 {
		return nil
	}
	var targs []types.Type
	fi := e.x.fi
	for fi != nil && fi.Lit != nil && fi.Outer != nil {
		fi = fi.Outer // a literal uses the type parameters of its enclosing function
	}
	if fi != nil && fi.Sig != nil {
		if r := fi.Sig.Recv(); r != nil {
			rt := r.Type()
			if pt, ok := rt.(*types.Pointer); ok {
				rt = pt.Elem()
			}
			if rn, ok := rt.(*types.Named); ok {
				for i := 0; i < rn.TypeArgs().Len(); i++ {
					targs = append(targs, rn.TypeArgs().At(i))
				}
			}
		}
		if len(targs) == 0 {
			for i := 0; i < fi.Sig.TypeParams().Len(); i++ {
				targs = append(targs, fi.Sig.TypeParams().At(i))
			}
		}
	}
	if len(targs) != named.TypeParams().Len() {
		return nil
	}
	inst, err := types.Instantiate(nil, named, targs, false)
	if err != nil {
		return nil
	}
	var t types.Type = inst
	for i := len(wraps) - 1; i >= 0; i-- {
		if wraps[i] == "*" {
			t = types.NewPointer(t)
		} else {
			t = types.NewSlice(t)
		}
	}
	return t
}

func (e *specEnv) evalBool(ex SExpr) *Term {
	v := e.eval(ex)
	if v.Term == nil || v.Term.Sort != SBool {
		e.fail("expected a boolean expression, got %s", typeStr(v.T))
	}
	return v.Term
}

func (e *specEnv) eval(ex SExpr) Value {
	e.x.specDepth++
	defer func() { e.x.specDepth-- }()
	return e.ev(ex)
}

var boolT = types.Typ[types.Bool]

func (e *specEnv) ev(ex SExpr) Value {
	x, c := e.x, e.x.c
	switch ex := ex.(type) {
	case SNum:
		return Value{T: types.Typ[types.UntypedInt], Term: c.IntStr(ex.Val)}
	case SStr:
		return x.constValueStr(e.s, ex.Val)
	case SIdent:
		return e.ident(ex.Name)
	case SUn:
		sub := e
		if ex.Op == "!" {
			sub = e.withPol(-e.pol)
		}
		v := sub.ev(ex.X)
		switch ex.Op {
		case "!":
			return Value{T: boolT, Term: c.Not(v.Term)}
		case "-":
			return Value{T: v.T, Term: c.Neg(v.Term)}
		}
	case SDeref:
		p := e.ev(ex.X)
		pt, ok := p.T.Underlying().(*types.Pointer)
		if !ok {
			e.fail("dereference of non-pointer %s", typeStr(p.T))
		}
		return x.h.LoadPtr(e.s, pt.Elem(), p.Term)
	case SBin:
		switch ex.Op {
		case "&&":
			return Value{T: boolT, Term: c.And(e.evalBool(ex.L), e.evalBool(ex.R))}
		case "||":
			return Value{T: boolT, Term: c.Or(e.evalBool(ex.L), e.evalBool(ex.R))}
		case "==>":
			l := e.withPol(-e.pol).evalBool(ex.L)
			if e.pol < 0 && e.s.binderFacts != nil {
				// assumption: typing facts of the consequent hold whenever the antecedent does
				var facts []*Term
				view := *e.s
				view.sink = sinkOf(e.s)
				view.binderFacts = &facts
				n := *e
				n.s = &view
				r := n.evalBool(ex.R)
				return Value{T: boolT, Term: c.Implies(l, c.And(c.And(facts...), r))}
			}
			return Value{T: boolT, Term: c.Implies(l, e.evalBool(ex.R))}
		case "<==>":
			z := e.withPol(0)
			return Value{T: boolT, Term: c.Iff(z.evalBool(ex.L), z.evalBool(ex.R))}
		case "==", "!=":
			z := e.withPol(0)
			l, r := z.ev(ex.L), z.ev(ex.R)
			return x.binop(e.s, ex.Op, l, r, boolT, token.NoPos)
		}
		l, r := e.ev(ex.L), e.ev(ex.R)
		var rt types.Type
		switch ex.Op {
		case "==", "!=", "<", "<=", ">", ">=":
			rt = boolT
		default:
			rt = l.T
			if b, ok := rt.(*types.Basic); ok && b.Info()&types.IsUntyped != 0 {
				rt = r.T
			}
		}
		return x.binop(e.s, ex.Op, l, r, rt, token.NoPos)
	case SCond:
		cnd := e.withPol(0).evalBool(ex.C)
		a, b := e.ev(ex.A), e.ev(ex.B)
		if isUntypedNil(a.T) {
			a = x.h.zeroValue(b.T)
		}
		if isUntypedNil(b.T) {
			b = x.h.zeroValue(a.T)
		}
		return x.h.iteValue(cnd, a, b)
	case SSel:
		// pkg.Name: a package-level variable or constant of an imported package
		if id, ok := ex.X.(SIdent); ok {
			if _, isVar := e.vars[id.Name]; !isVar {
				if o := e.importedObject(id.Name, ex.Name); o != nil {
					switch o := o.(type) {
					case *types.Var:
						return x.loadLoc(e.s, x.globalLoc(o))
					case *types.Const:
						return x.constValue(e.s, o.Type(), o.Val())
					}
				}
			}
		}
		base := e.ev(ex.X)
		return e.selectField(base, ex.Name)
	case SIndex:
		base := e.ev(ex.X)
		idx := e.ev(ex.I)
		switch u := base.T.Underlying().(type) {
		case *types.Slice:
			return x.h.ReadElem(e.s, u.Elem(), base.Sl.Arr, c.Add(base.Sl.Off, idx.Term))
		case *types.Map:
			k := x.coerce(e.s, idx, u.Key())
			v, _ := x.h.MapLookup(e.s, base.T, base.Term, x.keyTerm(k))
			return v
		}
		e.fail("index on %s", typeStr(base.T))
	case SSlice:
		base := e.ev(ex.X)
		if base.Sl == nil {
			e.fail("slice expression on %s", typeStr(base.T))
		}
		lo, hi := c.Int(0), base.Sl.Len
		if ex.Lo != nil {
			lo = e.ev(ex.Lo).Term
		}
		if ex.Hi != nil {
			hi = e.ev(ex.Hi).Term
		}
		return Value{T: base.T, Sl: &SliceVal{Arr: base.Sl.Arr, Off: c.Add(base.Sl.Off, lo), Len: c.Sub(hi, lo), Cap: c.Sub(base.Sl.Cap, lo)}}
	case SQuant:
		n := e.sub()
		var bound []*Term
		var guards []*Term
		if !ex.Forall && e.pol > 0 && len(ex.Wits) == len(ex.Vars) {
			// an existential goal with witnesses for all binders: prove the body of the witnesses (stronger)
			all := true
			for _, w := range ex.Wits {
				if w == nil {
					all = false
				}
			}
			if all {
				for i, b := range ex.Vars {
					ts := b.Type
					if ts == "" {
						ts = "int"
					}
					t := e.resolveType(ts)
					wv := e.x.coerce(e.s, n.ev(ex.Wits[i]), t)
					n.vars[b.Name] = wv
					switch kindOf(t) {
					case kString, kRef, kIface, kOpaque:
						guards = append(guards, c.Ge(wv.Term, c.Int(0)))
					case kInt:
						if isUnsigned(t) {
							guards = append(guards, c.Ge(wv.Term, c.Int(0)))
						}
					}
				}
				body := n.evalBool(ex.Body)
				return Value{T: boolT, Term: c.And(c.And(guards...), body)}
			}
		}
		for _, b := range ex.Vars {
			ts := b.Type
			if ts == "" {
				ts = "int"
			}
			t := e.resolveType(ts)
			if k := kindOf(t); k == kStruct || k == kSlice || k == kUnsupported {
				e.fail("quantification over %s", ts)
			}
			bv := c.BVar(b.Name, sortOf(t))
			bound = append(bound, bv)
			n.vars[b.Name] = Value{T: t, Term: bv}
			switch kindOf(t) {
			case kString, kRef, kIface, kOpaque:
				guards = append(guards, c.Ge(bv, c.Int(0)))
			case kInt:
				if isUnsigned(t) {
					guards = append(guards, c.Ge(bv, c.Int(0)))
				}
			}
		}
		// typing facts about terms mentioning the bound variables become hypotheses of the quantifier
		var facts []*Term
		view := *n.s
		view.sink = sinkOf(n.s)
		view.binderFacts = &facts
		n.s = &view
		body := n.evalBool(ex.Body)
		var mine, outer []*Term
		for _, f := range facts {
			uses := false
			for _, b := range bound {
				if termUses(f, b) {
					uses = true
				}
			}
			if uses {
				mine = append(mine, f)
			} else {
				outer = append(outer, f)
			}
		}
		if len(outer) > 0 && e.s.binderFacts != nil && e.pol > 0 {
			*e.s.binderFacts = append(*e.s.binderFacts, outer...)
		}
		if e.pol > 0 && ex.Forall {
			// goal: the facts are hypotheses
			guards = append(guards, mine...)
		}
		if e.pol < 0 && !ex.Forall {
			// assumed existential: the (always true) facts also hold of the witness
			guards = append(guards, mine...)
		}
		if ex.Forall {
			return Value{T: boolT, Term: c.Forall(bound, c.Implies(c.And(guards...), body))}
		}
		return Value{T: boolT, Term: c.Exists(bound, c.And(c.And(guards...), body))}
	case SCall:
		return e.call(ex)
	}
	e.fail("unsupported spec expression %T", ex)
	return Value{}
}

func (x *fnv) constValueStr(s *State, sv string) Value {
	tm := x.strLit(sv)
	if sv != "" && !s.typed[tm] {
		s.typed[tm] = true
		s.Assume(x.c.Eq(x.c.App("strlen", SInt, tm), x.c.Int(int64(len(sv)))))
	}
	return Value{T: types.Typ[types.String], Term: tm}
}

func (e *specEnv) ident(name string) Value {
	x, c := e.x, e.x.c
	if v, ok := e.vars[name]; ok {
		return v
	}
	switch name {
	case "nil":
		return Value{T: types.Typ[types.UntypedNil], Term: c.Int(0)}
	case "true":
		return Value{T: boolT, Term: c.True()}
	case "false":
		return Value{T: boolT, Term: c.False()}
	}
	if strings.HasPrefix(name, "$") {
		// $i_2: role variable of the enclosing loop with ordinal 2
		if k := strings.LastIndex(name, "_"); k > 0 {
			var ord int
			if _, err := fmt.Sscanf(name[k+1:], "%d", &ord); err == nil {
				if lp := x.activeLoops[ord]; lp != nil {
					if v, ok := lp.role[name[:k]]; ok {
						return v
					}
					if o, ok := lp.roleVars[name[:k]]; ok {
						return x.readVar(e.s, o)
					}
				}
				e.fail("loop %d is not active here (%s)", ord, name)
			}
		}
		if e.lp != nil {
			if v, ok := e.lp.role[name]; ok {
				return v
			}
			if o, ok := e.lp.roleVars[name]; ok {
				return x.readVar(e.s, o)
			}
		}
		e.fail("role variable %s is not available here", name)
	}
	if g, ok := e.s.ghost[name]; ok {
		return g
	}
	// locals visible at the current position
	if pk := e.x.p.Pkgs[e.pkgPath]; pk != nil {
		var o types.Object
		if e.pos.IsValid() && pk == e.x.pkg {
			if sc := pk.Types.Scope().Innermost(e.pos); sc != nil {
				_, o = sc.LookupParent(name, e.pos)
			}
		}
		if o == nil {
			o = pk.Types.Scope().Lookup(name)
		}
		if o == nil {
			_, o = types.Universe.LookupParent(name, token.NoPos)
		}
		switch o := o.(type) {
		case *types.Var:
			if o.Parent() == pk.Types.Scope() {
				return x.loadLoc(e.s, x.globalLoc(o))
			}
			if _, ok := e.s.vars[o]; !ok && !x.boxedVar[o] {
				// a variable captured by a function literal that is verified on its own is an arbitrary input
				if x.fi.Lit != nil && (o.Pos() < x.fi.Lit.Pos() || o.Pos() > x.fi.Lit.End()) {
					return x.readVar(sinkOf(e.s), o)
				}
				e.fail("variable %s has no value at this point", name)
			}
			return x.readVar(e.s, o)
		case *types.Const:
			return x.constValue(e.s, o.Type(), o.Val())
		case *types.Func:
			return x.funcValue(o, nil)
		case *types.Nil:
			return Value{T: types.Typ[types.UntypedNil], Term: c.Int(0)}
		}
	}
	e.fail("unknown identifier %q", name)
	return Value{}
}

// selectField reads field `name` of v (struct value or pointer to struct), following embedded fields.
func (e *specEnv) selectField(v Value, name string) Value {
	x := e.x
	if v.T == nil {
		e.fail("field %s of untyped value", name)
	}
	obj, path, _ := types.LookupFieldOrMethod(v.T, true, e.tpkgFor(v.T), name)
	f, ok := obj.(*types.Var)
	if !ok || !f.IsField() {
		e.fail("no field %s in %s", name, typeStr(v.T))
	}
	for _, i := range path {
		if pt, ok := v.T.Underlying().(*types.Pointer); ok {
			st := pt.Elem().Underlying().(*types.Struct)
			v = x.h.ReadField(e.s, pt.Elem(), st.Field(i), v.Term)
			continue
		}
		st, ok := v.T.Underlying().(*types.Struct)
		if !ok {
			e.fail("field path through %s", typeStr(v.T))
		}
		fv := v.Fields[i]
		if fv.T == nil {
			fv.T = st.Field(i).Type()
		}
		v = fv
	}
	return v
}

func (e *specEnv) tpkgFor(t types.Type) *types.Package {
	if pt, ok := t.Underlying().(*types.Pointer); ok {
		t = pt.Elem()
	}
	if n, ok := t.(*types.Named); ok && n.Obj().Pkg() != nil {
		return n.Obj().Pkg()
	}
	return e.tpkg()
}

func (e *specEnv) oldEnv() *specEnv {
	n := e.sub()
	view := &State{vars: e.old.vars, mem: e.old.mem, allocTop: e.old.allocTop, ghost: e.old.ghost, typed: e.s.typed, sink: sinkOf(e.s), binderFacts: e.s.binderFacts}
	n.s = view
	// locals: parameters keep their entry values (bound explicitly by the caller); other locals are
	// read from the entry state when present
	return n
}

func sinkOf(s *State) *State {
	if s.sink != nil {
		return s.sink
	}
	return s
}

func (e *specEnv) call(ex SCall) Value {
	x, c := e.x, e.x.c
	fn, ok := ex.Fun.(SIdent)
	if !ok {
		e.fail("call of non-identifier in spec")
	}
	arg := func(i int) Value {
		if i >= len(ex.Args) {
			e.fail("%s: missing argument %d", fn.Name, i)
		}
		return e.ev(ex.Args[i])
	}
	it := types.Typ[types.Int]
	switch fn.Name {
	case "old":
		return e.oldEnv().ev(ex.Args[0])
	case "pre":
		// pre(e): value of e in the state just before the innermost enclosing loop
		if e.lp == nil || e.lp.pre == nil {
			e.fail("pre() is only available in loop invariants")
		}
		n := e.sub()
		n.s = &State{vars: e.lp.pre.vars, mem: e.lp.pre.mem, allocTop: e.lp.pre.allocTop, ghost: e.lp.pre.ghost, typed: e.s.typed, sink: sinkOf(e.s), binderFacts: e.s.binderFacts}
		return n.ev(ex.Args[0])
	case "len", "card":
		v := arg(0)
		switch kindOf(v.T) {
		case kSlice:
			return Value{T: it, Term: v.Sl.Len}
		case kString:
			return Value{T: it, Term: x.strLen(e.s, v.Term)}
		}
		if _, ok := v.T.Underlying().(*types.Map); ok {
			return Value{T: it, Term: x.h.MapCard(e.s, v.T, v.Term)}
		}
		e.fail("len of %s", typeStr(v.T))
	case "cap":
		v := arg(0)
		if v.Sl == nil {
			e.fail("cap of %s", typeStr(v.T))
		}
		return Value{T: it, Term: v.Sl.Cap}
	case "arr":
		return Value{T: it, Term: arg(0).Sl.Arr}
	case "off":
		return Value{T: it, Term: arg(0).Sl.Off}
	case "mem":
		// mem(s, i): cell i of the backing array counted from the slice's offset (valid up to cap)
		v := arg(0)
		i := arg(1)
		et := v.T.Underlying().(*types.Slice).Elem()
		return x.h.ReadElem(e.s, et, v.Sl.Arr, c.Add(v.Sl.Off, i.Term))
	case "in":
		if id, ok := ex.Args[1].(SIdent); ok && id.Name == "$seen" {
			if e.lp == nil || e.lp.seen == nil {
				e.fail("$seen is not available here")
			}
			k := arg(0)
			return Value{T: boolT, Term: c.Read(e.lp.seen, x.keyTerm(k), nil)}
		}
		k, m := arg(0), arg(1)
		mt, ok := m.T.Underlying().(*types.Map)
		if !ok {
			e.fail("in(k, m): m is %s", typeStr(m.T))
		}
		k = x.coerce(e.s, k, mt.Key())
		return Value{T: boolT, Term: c.And(c.Ne(m.Term, c.Int(0)), x.h.MapHas(e.s, m.T, m.Term, x.keyTerm(k)))}
	case "fresh":
		v := arg(0)
		t := v.Term
		if v.Sl != nil {
			t = v.Sl.Arr
		}
		return Value{T: boolT, Term: c.Gt(t, e.old.allocTop)}
	case "allocated":
		v := arg(0)
		t := v.Term
		if v.Sl != nil {
			t = v.Sl.Arr
		}
		return Value{T: boolT, Term: c.Le(t, e.s.allocTop)}
	case "typeOf":
		v := arg(0)
		if kindOf(v.T) != kIface {
			return Value{T: it, Term: x.tid(v.T)}
		}
		return Value{T: it, Term: x.dyn(v.Term)}
	case "typeid":
		s, ok := ex.Args[0].(SStr)
		if !ok {
			e.fail("typeid needs a string literal")
		}
		return Value{T: it, Term: x.tid(e.resolveType(s.Val))}
	case "ctxValue":
		// ctxValue(ctx, "KeyType"): ctx.Value(KeyType{})
		cv := arg(0)
		ks, ok := ex.Args[1].(SStr)
		if !ok {
			e.fail("ctxValue(ctx, \"KeyType\") needs a type name")
		}
		kt := e.resolveType(ks.Val)
		key := x.box(e.s, x.h.zeroValue(kt))
		m := x.h.region(e.s, "CTX", 2, SInt)
		return Value{T: types.NewInterfaceType(nil, nil), Term: c.Read(m, cv.Term, key)}
	case "gset":
		// gset("name", x): membership of x in the ghost set `name` (a ghost region, changed only through
		// the modifies/ensures of (trusted) contracts)
		gs, ok := ex.Args[0].(SStr)
		if !ok {
			e.fail("gset needs a set name")
		}
		v := arg(1)
		if v.Term == nil {
			e.fail("gset element must be a scalar")
		}
		return Value{T: boolT, Term: c.Read(x.h.region(e.s, "GHOST|"+gs.Val, 1, SBool), v.Term, nil)}
	case "plainError":
		// dynamic type is errors.New's (no Unwrap, no Is)
		v := arg(0)
		return Value{T: boolT, Term: c.Eq(x.dyn(v.Term), c.DistinctConst("tid", tidErrorString))}
	case "is":
		v := arg(0)
		s, ok := ex.Args[1].(SStr)
		if !ok {
			e.fail("is(v, \"T\") needs a string literal")
		}
		return Value{T: boolT, Term: x.isType(e.s, v.Term, e.resolveType(s.Val))}
	case "unbox":
		v := arg(0)
		s, ok := ex.Args[1].(SStr)
		if !ok {
			e.fail("unbox(v, \"T\") needs a string literal")
		}
		t := e.resolveType(s.Val)
		if kindOf(t) == kIface {
			return Value{T: t, Term: v.Term}
		}
		return x.unbox(e.s, v.Term, t)
	case "box":
		v := arg(0)
		return Value{T: types.NewInterfaceType(nil, nil), Term: x.box(e.s, v)}
	case "errorsIs":
		a, b := arg(0), arg(1)
		return Value{T: boolT, Term: x.errIs(e.s, a.Term, b.Term)}
	case "unwrap":
		return Value{T: arg(0).T, Term: x.unwrapOf(e.s, arg(0).Term)}
	case "held":
		// held(p.mu) / held(ptr): the ghost lock bit of the mutex at that address
		return Value{T: boolT, Term: e.lockHeld(ex.Args[0])}
	case "typename":
		// typename(x): the static Go type of the expression, as a string constant
		v := arg(0)
		return x.constValueStr(e.s, typeStr(v.T))
	case "done":
		// done(p.once): the ghost bit of a sync.Once field
		a := e.muAddrOf(ex.Args[0])
		return Value{T: boolT, Term: c.Read(x.h.region(e.s, onceRegionName, 1, SBool), a, nil)}
	case "addr":
		// addr(p.mu): the *sync.Mutex value &p.mu
		return Value{T: types.NewPointer(e.resolveType("sync.Mutex")), Term: e.muAddrOf(ex.Args[0])}
	case "implies":
		return Value{T: boolT, Term: c.Implies(e.evalBool(ex.Args[0]), e.evalBool(ex.Args[1]))}
	case "uf":
		// uf("name", args...) Int-valued uninterpreted function (abstract spec function)
		s, ok := ex.Args[0].(SStr)
		if !ok {
			e.fail("uf needs a name")
		}
		var as []*Term
		for _, a := range ex.Args[1:] {
			as = append(as, flatten(e.ev(a))...)
		}
		return Value{T: it, Term: c.App("uf_"+s.Val, SInt, as...)}
	case "ufb":
		s, ok := ex.Args[0].(SStr)
		if !ok {
			e.fail("ufb needs a name")
		}
		var as []*Term
		for _, a := range ex.Args[1:] {
			as = append(as, flatten(e.ev(a))...)
		}
		return Value{T: boolT, Term: c.App("ufb_"+s.Val, SBool, as...)}
	case "asint":
		v := arg(0)
		return Value{T: it, Term: v.Term}
	case "kindOf":
		// kindOf(t): the reflect.Kind of a reflect.Type value, as an integer (the same symbol the model of Type.Kind uses)
		v := arg(0)
		return Value{T: it, Term: c.App("rt_kind", SInt, v.Term)}
	}
	// user spec function
	if sf := x.p.Contracts.Specs[e.pkgPath+"::"+fn.Name]; sf != nil {
		if e.depth > 20 {
			e.fail("spec function recursion too deep: %s", fn.Name)
		}
		if len(ex.Args) != len(sf.Params) {
			e.fail("spec function %s: wrong number of arguments", fn.Name)
		}
		n := &specEnv{x: x, s: e.s, old: e.old, pkgPath: sf.PkgPath, vars: map[string]Value{}, lp: e.lp, depth: e.depth + 1, pol: e.pol}
		for i, p := range sf.Params {
			pt := n.resolveType(p.Type)
			n.vars[p.Name] = x.coerce(e.s, arg(i), pt)
		}
		return n.ev(sf.Body)
	}
	e.fail("unknown spec function %q", fn.Name)
	return Value{}
}

// muAddrOf evaluates a spec expression naming a mutex: a *sync.Mutex valued expression, or a field path x.mu whose
// field is a sync.Mutex (the address of that field).
func (e *specEnv) muAddrOf(ex SExpr) *Term {
	if sel, ok := ex.(SSel); ok {
		owner := e.ev(sel.X)
		if pt, ok := owner.T.Underlying().(*types.Pointer); ok {
			if obj, _, _ := types.LookupFieldOrMethod(owner.T, true, e.tpkgFor(owner.T), sel.Name); obj != nil {
				if f, ok := obj.(*types.Var); ok && isMutexType(f.Type()) {
					return e.x.muAddr(e.s, pt.Elem(), sel.Name, owner.Term)
				}
			}
		}
	}
	v := e.ev(ex)
	if pt, ok := v.T.Underlying().(*types.Pointer); ok && isMutexType(pt.Elem()) {
		return v.Term
	}
	e.fail("held()/lock()/addr() need a mutex field path or a *sync.Mutex value")
	return nil
}

func isMutexType(t types.Type) bool {
	s := typeStr(t)
	return s == "sync.Mutex" || s == "sync.RWMutex" || s == "sync.Once"
}

// lockHeld evaluates held(m): the ghost lock bit of the mutex at that address.
func (e *specEnv) lockHeld(ex SExpr) *Term {
	a := e.muAddrOf(ex)
	return e.x.c.Read(e.x.h.region(e.s, lockRegionName, 1, SBool), a, nil)
}

const lockRegionName = "LOCK"

// muAddr is the address of the mutex stored in field `field` of the object `owner` of type T: an injective
// function of the owner, distinct for distinct (type, field) pairs.
func (x *fnv) muAddr(s *State, T types.Type, field string, owner *Term) *Term {
	c := x.c
	name := "muaddr_" + sanitize(typeStr(T)) + "_" + field
	a := c.App(name, SInt, owner)
	inj := c.And(c.Gt(a, c.Int(0)), c.Eq(c.App("muowner", SInt, a), owner), c.Eq(c.App("mutag", SInt, a), x.strLit(name)))
	if a.HasBVar() {
		if s.binderFacts != nil {
			*s.binderFacts = append(*s.binderFacts, inj)
		}
		return a
	}
	if !s.typed[a] {
		s.typed[a] = true
		s.Assume(inj)
	}
	return a
}

// evalModTargets interprets a modifies clause.
func (e *specEnv) evalModTargets(ex SExpr) []modTarget {
	x, c := e.x, e.x.c
	x.specDepth++
	defer func() { x.specDepth-- }()
	reg := func(prefix string, arity int, t types.Type) {
		if _, ok := x.h.schema[prefix]; ok {
			return
		}
		var sch []regionSchema
		for _, l := range leavesOf(t) {
			sch = append(sch, regionSchema{prefix + l.Path, arity, l.Sort})
		}
		x.h.schema[prefix] = sch
	}
	fieldsOf := func(p Value) []modTarget {
		pt, ok := p.T.Underlying().(*types.Pointer)
		if !ok {
			e.fail("fields(p): p is %s", typeStr(p.T))
		}
		st, ok := pt.Elem().Underlying().(*types.Struct)
		if !ok {
			pre := cellRegion(pt.Elem())
			reg(pre, 1, pt.Elem())
			return []modTarget{{prefix: pre, match: func(ref, idx *Term) *Term { return c.Eq(ref, p.Term) }}}
		}
		var out []modTarget
		for i := 0; i < st.NumFields(); i++ {
			pre := fieldRegion(pt.Elem(), st.Field(i).Name())
			reg(pre, 1, st.Field(i).Type())
			out = append(out, modTarget{prefix: pre, match: func(ref, idx *Term) *Term { return c.Eq(ref, p.Term) }})
		}
		return out
	}
	mapOf := func(m Value) []modTarget {
		if _, ok := m.T.Underlying().(*types.Map); !ok {
			e.fail("map(m): m is %s", typeStr(m.T))
		}
		match := func(ref, idx *Term) *Term { return c.Eq(ref, m.Term) }
		x.h.schema[mapDomRegion(m.T)] = []regionSchema{{mapDomRegion(m.T), 2, SBool}}
		x.h.schema[mapCardRegion(m.T)] = []regionSchema{{mapCardRegion(m.T), 1, SInt}}
		reg(mapValRegion(m.T), 2, mapType(m.T).Elem())
		return []modTarget{{prefix: mapDomRegion(m.T), match: match}, {prefix: mapValRegion(m.T), match: match}, {prefix: mapCardRegion(m.T), match: match}}
	}
	elemsOf := func(sv Value, lo, hi *Term) []modTarget {
		st, ok := sv.T.Underlying().(*types.Slice)
		if !ok {
			e.fail("elems(s): s is %s", typeStr(sv.T))
		}
		pre := sliceRegion(st.Elem())
		reg(pre, 2, st.Elem())
		return []modTarget{{prefix: pre, match: func(ref, idx *Term) *Term {
			return c.And(c.Eq(ref, sv.Sl.Arr), c.Le(c.Add(sv.Sl.Off, lo), idx), c.Lt(idx, c.Add(sv.Sl.Off, hi)))
		}}}
	}
	switch ex := ex.(type) {
	case SQuant:
		// each(k T :: cond, target, ...) is written forall(k T :: cond ==> targets(...)): the union over all k with cond
		if !ex.Forall {
			e.fail("modifies: use forall(k T :: cond ==> target)")
		}
		imp, ok := ex.Body.(SBin)
		if !ok || imp.Op != "==>" {
			e.fail("modifies: forall body must be cond ==> target")
		}
		n := e.sub()
		var bound, tguards []*Term
		for _, b := range ex.Vars {
			ts := b.Type
			if ts == "" {
				ts = "int"
			}
			t := e.resolveType(ts)
			bv := c.BVar("modk_"+b.Name, sortOf(t))
			bound = append(bound, bv)
			n.vars[b.Name] = Value{T: t, Term: bv}
			switch kindOf(t) {
			case kString, kRef, kIface, kOpaque:
				tguards = append(tguards, c.Ge(bv, c.Int(0)))
			case kInt:
				if isUnsigned(t) {
					tguards = append(tguards, c.Ge(bv, c.Int(0)))
				}
			}
		}
		cond := c.And(c.And(tguards...), n.withPol(0).evalBool(imp.L))
		var out []modTarget
		for _, tg := range n.evalModTargets(imp.R) {
			m := tg.match
			out = append(out, modTarget{prefix: tg.prefix, fresh: tg.fresh, match: func(ref, idx *Term) *Term {
				return c.Exists(bound, c.And(cond, m(ref, idx)))
			}})
		}
		return out
	case SCall:
		if fn, ok := ex.Fun.(SIdent); ok {
			switch fn.Name {
			default:
				if ms := x.p.Contracts.ModSets[e.pkgPath+"::"+fn.Name]; ms != nil {
					if len(ex.Args) != len(ms.Params) {
						e.fail("modset %s: wrong number of arguments", fn.Name)
					}
					n := &specEnv{x: x, s: e.s, old: e.old, pkgPath: ms.PkgPath, vars: map[string]Value{}, lp: e.lp, depth: e.depth + 1}
					for i, p := range ms.Params {
						n.vars[p.Name] = x.coerce(e.s, e.ev(ex.Args[i]), n.resolveType(p.Type))
					}
					var out []modTarget
					for _, t := range ms.Targets {
						out = append(out, n.evalModTargets(t)...)
					}
					return out
				}
			case "targets":
				var out []modTarget
				for _, a := range ex.Args {
					out = append(out, e.evalModTargets(a)...)
				}
				return out
			case "fields":
				return fieldsOf(e.ev(ex.Args[0]))
			case "map":
				return mapOf(e.ev(ex.Args[0]))
			case "elems":
				sv := e.ev(ex.Args[0])
				lo, hi := c.Int(0), sv.Sl.Cap
				if len(ex.Args) == 3 {
					lo, hi = e.ev(ex.Args[1]).Term, e.ev(ex.Args[2]).Term
				}
				return elemsOf(sv, lo, hi)
			case "gset":
				gs, ok := ex.Args[0].(SStr)
				if !ok {
					e.fail("gset needs a set name")
				}
				x.h.schema["GHOST|"+gs.Val] = []regionSchema{{"GHOST|" + gs.Val, 1, SBool}}
				return []modTarget{{prefix: "GHOST|" + gs.Val, match: func(ref, idx *Term) *Term { return c.True() }}}
			case "elemsField":
				// elemsField(s, "f.g"): the leaves below field path f.g of every cell of s
				sv := e.ev(ex.Args[0])
				fs, ok := ex.Args[1].(SStr)
				st, ok2 := sv.T.Underlying().(*types.Slice)
				if !ok || !ok2 {
					e.fail("elemsField(s, \"field\")")
				}
				ft := st.Elem()
				for _, name := range strings.Split(fs.Val, ".") {
					stt, ok := ft.Underlying().(*types.Struct)
					if !ok {
						e.fail("elemsField: %s is not a struct", typeStr(ft))
					}
					found := false
					for i := 0; i < stt.NumFields(); i++ {
						if stt.Field(i).Name() == name {
							ft, found = stt.Field(i).Type(), true
						}
					}
					if !found {
						e.fail("elemsField: no field %s", name)
					}
				}
				pre := sliceRegion(st.Elem()) + "." + fs.Val
				reg(pre, 2, ft)
				return []modTarget{{prefix: pre, match: func(ref, idx *Term) *Term {
					return c.And(c.Eq(ref, sv.Sl.Arr), c.Le(sv.Sl.Off, idx), c.Lt(idx, c.Add(sv.Sl.Off, sv.Sl.Cap)))
				}}}
			case "region":
				s, ok := ex.Args[0].(SStr)
				if !ok {
					e.fail("region needs a string")
				}
				return []modTarget{{prefix: s.Val, match: func(ref, idx *Term) *Term { return c.True() }}}
			case "lock":
				a := e.muAddrOf(ex.Args[0])
				x.h.schema[lockRegionName] = []regionSchema{{lockRegionName, 1, SBool}}
				return []modTarget{{prefix: lockRegionName, match: func(ref, idx *Term) *Term { return c.Eq(ref, a) }}}
			case "once":
				a := e.muAddrOf(ex.Args[0])
				x.h.schema[onceRegionName] = []regionSchema{{onceRegionName, 1, SBool}}
				return []modTarget{{prefix: onceRegionName, match: func(ref, idx *Term) *Term { return c.Eq(ref, a) }}}
			case "captured":
				return nil // variables of the enclosing function: checked syntactically (closure frame), no heap cells
			case "nothing":
				return nil
			case "when":
				// when(cond, target, ...): the targets only if cond holds
				cond := e.withPol(0).evalBool(ex.Args[0])
				var out []modTarget
				for _, a := range ex.Args[1:] {
					for _, tg := range e.evalModTargets(a) {
						m := tg.match
						out = append(out, modTarget{prefix: tg.prefix, fresh: tg.fresh, match: func(ref, idx *Term) *Term { return c.And(cond, m(ref, idx)) }})
					}
				}
				return out
			case "fresh":
				// everything allocated since the function was entered
				// relative to the function the clause belongs to: at a call site e.old is the pre-call state
				top0 := e.old.allocTop
				return []modTarget{{prefix: "", fresh: true, match: func(ref, idx *Term) *Term { return c.Gt(ref, top0) }}}
			}
		}
	case SSel:
		base := e.ev(ex.X)
		pt, ok := base.T.Underlying().(*types.Pointer)
		if !ok {
			e.fail("modifies %s: base is not a pointer", ex.Name)
		}
		obj, path, _ := types.LookupFieldOrMethod(base.T, true, e.tpkgFor(base.T), ex.Name)
		f, ok := obj.(*types.Var)
		if !ok || len(path) != 1 {
			e.fail("modifies: no direct field %s in %s", ex.Name, typeStr(base.T))
		}
		pre := fieldRegion(pt.Elem(), f.Name())
		reg(pre, 1, f.Type())
		return []modTarget{{prefix: pre, match: func(ref, idx *Term) *Term { return c.Eq(ref, base.Term) }}}
	case SDeref:
		return fieldsOf(e.ev(ex.X))
	case SIndex:
		// m[k]: the entry of key k (presence, value) and the cardinality of m; s[i]: one slice cell
		base := e.ev(ex.X)
		switch bt := base.T.Underlying().(type) {
		case *types.Map:
			k := x.coerce(e.s, e.ev(ex.I), bt.Key())
			if k.Term == nil {
				e.fail("modifies m[k]: composite key")
			}
			x.h.schema[mapDomRegion(base.T)] = []regionSchema{{mapDomRegion(base.T), 2, SBool}}
			x.h.schema[mapCardRegion(base.T)] = []regionSchema{{mapCardRegion(base.T), 1, SInt}}
			reg(mapValRegion(base.T), 2, bt.Elem())
			entry := func(ref, idx *Term) *Term { return c.And(c.Eq(ref, base.Term), c.Eq(idx, k.Term)) }
			whole := func(ref, idx *Term) *Term { return c.Eq(ref, base.Term) }
			return []modTarget{{prefix: mapDomRegion(base.T), match: entry}, {prefix: mapValRegion(base.T), match: entry}, {prefix: mapCardRegion(base.T), match: whole}}
		case *types.Slice:
			i := e.ev(ex.I)
			pre := sliceRegion(bt.Elem())
			reg(pre, 2, bt.Elem())
			return []modTarget{{prefix: pre, match: func(ref, idx *Term) *Term {
				return c.And(c.Eq(ref, base.Sl.Arr), c.Eq(idx, c.Add(base.Sl.Off, i.Term)))
			}}}
		}
		e.fail("modifies x[i]: x is %s", typeStr(base.T))
	}
	e.fail("unsupported modifies target")
	return nil
}

func termUses(t, v *Term) bool {
	return t.freeBVars()[v]
}
