package vc

import (
	"fmt"
	"go/ast"
	"go/token"
	"go/types"
	"os"
	"path/filepath"
	"sort"
	"strings"

	"golang.org/x/tools/go/packages"
)

// prog.go: loads the packages under contract from the current working tree and indexes functions.

type FuncInfo struct {
	Pkg   *packages.Package
	Key   string
	Decl  *ast.FuncDecl // nil for literals
	Lit   *ast.FuncLit
	Outer *FuncInfo // enclosing function for literals
	Obj   *types.Func
	Sig   *types.Signature
	Body  *ast.BlockStmt
	Recv  *types.Var
}

func (f *FuncInfo) ID() string { return f.Pkg.PkgPath + "::" + f.Key }
func (f *FuncInfo) QualName() string {
	return f.Pkg.Name + "." + f.Key
}

type Prog struct {
	Root      string
	Fset      *token.FileSet
	Pkgs      map[string]*packages.Package
	Funcs     map[string]*FuncInfo
	ByObj     map[*types.Func]*FuncInfo
	ByLit     map[*ast.FuncLit]*FuncInfo
	Contracts *ContractSet
	LoadSecs  float64

	Models     map[string]bool // library models used (trusted base)
	errTypes   []errTypeInfo
	modRegions map[*FuncContract][]string
}

const ContractFileName = "zz_contracts_verif.go"

func recvKey(recv *ast.FieldList) string {
	if recv == nil || len(recv.List) == 0 {
		return ""
	}
	t := recv.List[0].Type
	star := false
	if s, ok := t.(*ast.StarExpr); ok {
		star = true
		t = s.X
	}
	// strip type parameters
	switch x := t.(type) {
	case *ast.IndexExpr:
		t = x.X
	case *ast.IndexListExpr:
		t = x.X
	}
	name := ""
	if id, ok := t.(*ast.Ident); ok {
		name = id.Name
	}
	if star {
		return "(*" + name + ")."
	}
	return "(" + name + ")."
}

// Load loads the given package patterns (relative to root) with the verif tag.
func Load(root string, patterns []string) (*Prog, error) {
	cfg := &packages.Config{
		Mode: packages.NeedName | packages.NeedSyntax | packages.NeedTypes | packages.NeedTypesInfo | packages.NeedFiles |
			packages.NeedImports | packages.NeedDeps | packages.NeedCompiledGoFiles,
		Dir:        root,
		BuildFlags: []string{"-tags=verif"},
		Env:        append(os.Environ(), "GOFLAGS=-mod=mod", "GOPROXY=off", "GOSUMDB=off", "GOTOOLCHAIN=local"),
	}
	pkgs, err := packages.Load(cfg, patterns...)
	if err != nil {
		return nil, err
	}
	p := &Prog{Root: root, Pkgs: map[string]*packages.Package{}, Funcs: map[string]*FuncInfo{}, ByObj: map[*types.Func]*FuncInfo{},
		ByLit: map[*ast.FuncLit]*FuncInfo{}, Contracts: NewContractSet()}
	var errs []string
	for _, pk := range pkgs {
		for _, e := range pk.Errors {
			errs = append(errs, e.Error())
		}
		p.Pkgs[pk.PkgPath] = pk
		p.Fset = pk.Fset
	}
	if len(errs) > 0 {
		return nil, fmt.Errorf("package errors: %s", strings.Join(errs, "; "))
	}
	for _, pk := range pkgs {
		p.indexPkg(pk)
	}
	for _, pk := range pkgs {
		for i, f := range pk.Syntax {
			fn := pk.CompiledGoFiles[i]
			if filepath.Base(fn) != ContractFileName {
				continue
			}
			err := p.Contracts.ParseContractFile(pk.PkgPath, fn, f, func(c *ast.Comment) int { return pk.Fset.Position(c.Pos()).Line })
			if err != nil {
				return nil, err
			}
		}
	}
	return p, nil
}

func (p *Prog) indexPkg(pk *packages.Package) {
	for i, f := range pk.Syntax {
		if strings.HasSuffix(pk.CompiledGoFiles[i], "_test.go") {
			continue
		}
		for _, d := range f.Decls {
			fd, ok := d.(*ast.FuncDecl)
			if !ok || fd.Body == nil {
				continue
			}
			obj, _ := pk.TypesInfo.Defs[fd.Name].(*types.Func)
			if obj == nil {
				continue
			}
			key := recvKey(fd.Recv) + fd.Name.Name
			fi := &FuncInfo{Pkg: pk, Key: key, Decl: fd, Obj: obj, Sig: obj.Type().(*types.Signature), Body: fd.Body}
			fi.Recv = fi.Sig.Recv()
			if fd.Name.Name == "init" || fd.Name.Name == "_" {
				continue
			}
			p.Funcs[fi.ID()] = fi
			p.ByObj[obj] = fi
			p.indexLits(fi, fd.Body)
		}
	}
}

// indexLits numbers the function literals nested in a function in source order: Outer$1, Outer$2, ...
// Literals nested in literals are numbered in the same sequence (pre-order).
func (p *Prog) indexLits(outer *FuncInfo, body ast.Node) {
	n := 0
	root := outer
	ast.Inspect(body, func(nd ast.Node) bool {
		lit, ok := nd.(*ast.FuncLit)
		if !ok {
			return true
		}
		n++
		sig, _ := outer.Pkg.TypesInfo.TypeOf(lit).(*types.Signature)
		fi := &FuncInfo{Pkg: outer.Pkg, Key: fmt.Sprintf("%s$%d", root.Key, n), Lit: lit, Outer: root, Sig: sig, Body: lit.Body}
		p.Funcs[fi.ID()] = fi
		p.ByLit[lit] = fi
		return true
	})
}

// Contract returns the contract for a function, or nil.
func (p *Prog) Contract(fi *FuncInfo) *FuncContract {
	return p.Contracts.Funcs[fi.ID()]
}

// SortedContractKeys lists contract ids deterministically.
func (p *Prog) SortedContractKeys() []string {
	ks := make([]string, 0, len(p.Contracts.Funcs))
	for k := range p.Contracts.Funcs {
		ks = append(ks, k)
	}
	sort.Strings(ks)
	return ks
}

// GoAtLeast reports whether the go directive of the module at the root is at least major.minor (false when it cannot
// be read: the older semantics is the cautious answer for loop variables).
func (p *Prog) GoAtLeast(major, minor int) bool {
	b, err := os.ReadFile(filepath.Join(p.Root, "go.mod"))
	if err != nil {
		return false
	}
	for _, ln := range strings.Split(string(b), "\n") {
		f := strings.Fields(ln)
		if len(f) == 2 && f[0] == "go" {
			var a, c int
			if n, _ := fmt.Sscanf(f[1], "%d.%d", &a, &c); n == 2 {
				return a > major || (a == major && c >= minor)
			}
		}
	}
	return false
}
