package vc

import (
	"fmt"
	"go/ast"
	"regexp"
	"strconv"
	"strings"
)

// contract.go: parser for the //@ contract files (zz_contracts_verif.go, build tag verif).

type Clause struct {
	Label string
	Props []string
	Src   string
	Expr  SExpr
	File  string
	Line  int
}

type LoopContract struct {
	Forget     bool // at the loop head keep only the function's preconditions and the invariants
	Invariants []*Clause
	Decreases  *Clause
	Modifies   []*Clause // optional refinement of the loop's write set
}

// AtClause attaches ghost code / assertions to the n-th call of a named callee in the function.
type AtClause struct {
	Callee string // textual callee as written, e.g. "tm.submit"
	Nth    int    // 0 = every occurrence
	Kind   string // "assert", "ghost", "assume-trusted"
	Clause *Clause
	Ghost  string // for ghost: "name = expr" / "name++"
	After  bool   // evaluated after the call returned (`after call ...`); `result`, `result0`... name the results
}

// RecvGhost is a ghost update attached to the receives from one channel expression.
type RecvGhost struct {
	Chan, Name string
	Clause     *Clause
}

type GhostDecl struct {
	Name string
	Type string
	Init *Clause
}

type FuncContract struct {
	PkgPath    string
	Key        string // "Name", "(*T).Name", "(T).Name", with "$n" suffixes for function literals
	Requires   []*Clause
	Ensures    []*Clause
	Modifies   []*Clause
	Loops      map[int]*LoopContract
	Ats        []*AtClause
	Ghosts     []*GhostDecl
	Trusted    bool // body not verified, contract assumed (reported)
	Pure       bool // no heap writes, result is a function of the arguments and the heap
	NoPanic    bool // callbacks may panic; the function must not propagate a panic
	Abstract   bool // interface method contract
	Props      []string
	Replay     map[string]string // label -> template spec
	File       string
	Line       int
	RecvGhosts []RecvGhost
	Assumes    []*Clause          // entry assumptions not checked at call sites (trusted type invariants)
	Recvs      map[string]*Clause // channel text -> assumed invariant of received values (trusted)
	Uses       map[string]bool    // when non-nil: only the postconditions of these callees are assumed (others: results and write sets only)
	MaxPaths   int                // live symbolic paths kept apart before joining (default 4)
	Frozen   []string // captured variables the literal needs unchanged after its creation
	Bounded    string             // non-empty: obligations of this function are bounded stand-ins (text = bound)
	Skip       map[string]bool    // kinds of implicit obligations not generated (reported)
	Notes      []string
	UsedBy     map[string]bool
}

type SpecFunc struct {
	PkgPath string
	Name    string
	Params  []SBinder
	Result  string
	Body    SExpr
	Src     string
	File    string
	Line    int
}

type Lemma struct {
	PkgPath string
	Name    string
	Props   []string
	Clause  *Clause
	Binders []SBinder
}

// Axiom is a trusted package-level fact (e.g. about package variables initialised once), assumed at
// the entry of every function of the package and reported in the evidence.
type Axiom struct {
	PkgPath string
	Clause  *Clause
}

// ModSet is a named, parameterised list of modifies targets.
type ModSet struct {
	PkgPath string
	Name    string
	Params  []SBinder
	Targets []SExpr
}

type ContractSet struct {
	ModSets map[string]*ModSet
	Axioms  []*Axiom
	Funcs   map[string]*FuncContract // pkgpath + "::" + key
	Specs   map[string]*SpecFunc     // pkgpath + "::" + name
	Lemmas  []*Lemma
	Trusted []string // descriptions of trusted contracts, for evidence
}

func NewContractSet() *ContractSet {
	return &ContractSet{Funcs: map[string]*FuncContract{}, Specs: map[string]*SpecFunc{}, ModSets: map[string]*ModSet{}}
}

var labelRe = regexp.MustCompile(`^\[([A-Za-z0-9_.]+)\]\s*`)
var propsRe = regexp.MustCompile(`^@([A-Z0-9,]+)\s+`)

var clauseKeywords = map[string]bool{
	"func": true, "iface": true, "fieldfunc": true, "spec": true, "lemma": true, "axiom": true, "modset": true, "requires": true, "assumes": true, "ensures": true, "modifies": true, "loop": true,
	"invariant": true, "decreases": true, "trusted": true, "props": true, "ghost": true, "at": true, "after": true, "recv": true,
	"pure": true, "nopanic": true, "paths": true, "captures": true, "forget": true, "uses": true, "replay": true, "bounded": true, "skip": true, "note": true,
}

type rawLine struct {
	text string
	line int
}

// ParseContractFile reads the //@ lines of one file.
func (cs *ContractSet) ParseContractFile(pkgPath, filename string, f *ast.File, lineOf func(*ast.Comment) int) error {
	var lines []rawLine
	for _, cg := range f.Comments {
		for _, c := range cg.List {
			if !strings.HasPrefix(c.Text, "//@") {
				continue
			}
			t := strings.TrimPrefix(c.Text, "//@")
			lines = append(lines, rawLine{t, lineOf(c)})
		}
	}
	// join continuation lines
	var joined []rawLine
	for _, l := range lines {
		tt := strings.TrimSpace(l.text)
		if tt == "" {
			continue
		}
		first := tt
		if i := strings.IndexAny(tt, " \t[:"); i >= 0 {
			first = tt[:i]
		}
		if clauseKeywords[first] || len(joined) == 0 {
			joined = append(joined, rawLine{tt, l.line})
		} else {
			joined[len(joined)-1].text += " " + tt
		}
	}
	var cur *FuncContract
	var curLoop *LoopContract
	for _, l := range joined {
		kw, rest := splitKw(l.text)
		mk := func(src string) (*Clause, error) {
			cl := &Clause{File: filename, Line: l.line}
			if m := labelRe.FindStringSubmatch(src); m != nil {
				cl.Label = m[1]
				src = src[len(m[0]):]
			}
			if m := propsRe.FindStringSubmatch(src); m != nil {
				cl.Props = strings.Split(m[1], ",")
				src = src[len(m[0]):]
			}
			cl.Src = src
			e, err := ParseSpec(src)
			if err != nil {
				return nil, fmt.Errorf("%s:%d: %v", filename, l.line, err)
			}
			cl.Expr = e
			return cl, nil
		}
		switch kw {
		case "func", "iface", "fieldfunc":
			key := strings.TrimSpace(rest)
			if kw == "iface" && !(strings.HasPrefix(key, "(") && strings.Contains(key, ").")) {
				return fmt.Errorf("%s:%d: iface contract must be written (Interface).Method, got %q", filename, l.line, key)
			}
			if kw == "fieldfunc" {
				key = "field:" + key
			}
			cur = &FuncContract{PkgPath: pkgPath, Key: key, Loops: map[int]*LoopContract{}, File: filename, Line: l.line,
				Replay: map[string]string{}, Abstract: kw == "iface" || kw == "fieldfunc", Skip: map[string]bool{}, UsedBy: map[string]bool{}}
			curLoop = nil
			id := pkgPath + "::" + key
			if _, dup := cs.Funcs[id]; dup {
				return fmt.Errorf("%s:%d: duplicate contract for %s", filename, l.line, key)
			}
			cs.Funcs[id] = cur
		case "modset":
			// modset name(p T, ...) = target, target, ...
			eq := strings.Index(rest, "=")
			lp := strings.Index(rest, "(")
			rp := strings.Index(rest, ")")
			if eq < 0 || lp < 0 || rp < lp || rp > eq {
				return fmt.Errorf("%s:%d: bad modset", filename, l.line)
			}
			ms := &ModSet{PkgPath: pkgPath, Name: strings.TrimSpace(rest[:lp])}
			for _, p := range splitTop(rest[lp+1:rp], ',') {
				p = strings.TrimSpace(p)
				k := strings.IndexAny(p, " \t")
				if k < 0 {
					return fmt.Errorf("%s:%d: bad modset parameter %q", filename, l.line, p)
				}
				ms.Params = append(ms.Params, SBinder{p[:k], strings.TrimSpace(p[k:])})
			}
			for _, part := range splitTop(rest[eq+1:], ',') {
				ex, err := ParseSpec(strings.TrimSpace(part))
				if err != nil {
					return fmt.Errorf("%s:%d: %v", filename, l.line, err)
				}
				ms.Targets = append(ms.Targets, ex)
			}
			if _, dup := cs.ModSets[pkgPath+"::"+ms.Name]; dup {
				return fmt.Errorf("%s:%d: duplicate modset %s", filename, l.line, ms.Name)
			}
			cs.ModSets[pkgPath+"::"+ms.Name] = ms
			cur, curLoop = nil, nil
		case "axiom":
			cl, err := mk(rest)
			if err != nil {
				return err
			}
			cs.Axioms = append(cs.Axioms, &Axiom{PkgPath: pkgPath, Clause: cl})
			cur, curLoop = nil, nil
		case "spec":
			// spec name(p T, q U) R = expr
			sf, err := parseSpecFunc(rest)
			if err != nil {
				return fmt.Errorf("%s:%d: %v", filename, l.line, err)
			}
			sf.PkgPath, sf.File, sf.Line = pkgPath, filename, l.line
			if _, dup := cs.Specs[pkgPath+"::"+sf.Name]; dup {
				return fmt.Errorf("%s:%d: duplicate spec function %s", filename, l.line, sf.Name)
			}
			cs.Specs[pkgPath+"::"+sf.Name] = sf
			cur, curLoop = nil, nil
		case "lemma":
			// lemma name @C01 (x T, y U): formula
			i := strings.Index(rest, ":")
			if i < 0 {
				return fmt.Errorf("%s:%d: lemma needs ':'", filename, l.line)
			}
			head, body := strings.TrimSpace(rest[:i]), strings.TrimSpace(rest[i+1:])
			// binders' "::"? the head may contain "(x int, m map[string]bool)"
			lm := &Lemma{PkgPath: pkgPath}
			if j := strings.Index(head, "("); j >= 0 {
				bs := strings.TrimSuffix(strings.TrimSpace(head[j+1:]), ")")
				head = strings.TrimSpace(head[:j])
				for _, b := range splitTop(bs, ',') {
					b = strings.TrimSpace(b)
					k := strings.IndexAny(b, " \t")
					if k < 0 {
						return fmt.Errorf("%s:%d: bad lemma binder %q", filename, l.line, b)
					}
					lm.Binders = append(lm.Binders, SBinder{b[:k], strings.TrimSpace(b[k:])})
				}
			}
			parts := strings.Fields(head)
			lm.Name = parts[0]
			for _, p := range parts[1:] {
				if strings.HasPrefix(p, "@") {
					lm.Props = strings.Split(p[1:], ",")
				}
			}
			cl, err := mk(body)
			if err != nil {
				return err
			}
			cl.Label = lm.Name
			lm.Clause = cl
			cs.Lemmas = append(cs.Lemmas, lm)
			cur, curLoop = nil, nil
		default:
			if cur == nil {
				return fmt.Errorf("%s:%d: clause %q outside a func block", filename, l.line, kw)
			}
			switch kw {
			case "modifies":
				for _, part := range splitTop(rest, ',') {
					cl, err := mk(strings.TrimSpace(part))
					if err != nil {
						return err
					}
					if curLoop != nil {
						curLoop.Modifies = append(curLoop.Modifies, cl)
					} else {
						cur.Modifies = append(cur.Modifies, cl)
					}
				}
			case "requires", "assumes", "ensures", "invariant", "decreases":
				cl, err := mk(rest)
				if err != nil {
					return err
				}
				switch kw {
				case "requires":
					cur.Requires = append(cur.Requires, cl)
				case "assumes":
					// assumed at entry, not imposed on callers: a (trusted) data-structure invariant of values
					// whose fields are private to the package
					cur.Assumes = append(cur.Assumes, cl)
				case "ensures":
					cur.Ensures = append(cur.Ensures, cl)
				case "invariant":
					if curLoop == nil {
						return fmt.Errorf("%s:%d: invariant outside loop", filename, l.line)
					}
					curLoop.Invariants = append(curLoop.Invariants, cl)
				case "decreases":
					if curLoop == nil {
						return fmt.Errorf("%s:%d: decreases outside loop", filename, l.line)
					}
					curLoop.Decreases = cl
				}
			case "loop":
				n, err := strconv.Atoi(strings.TrimSuffix(strings.TrimSpace(rest), ":"))
				if err != nil {
					return fmt.Errorf("%s:%d: bad loop ordinal %q", filename, l.line, rest)
				}
				curLoop = &LoopContract{}
				cur.Loops[n] = curLoop
			case "trusted":
				cur.Trusted = true
				if rest != "" {
					cur.Notes = append(cur.Notes, rest)
				}
			case "uses":
				if cur.Uses == nil {
					cur.Uses = map[string]bool{}
				}
				for _, u := range strings.Fields(strings.ReplaceAll(rest, ",", " ")) {
					cur.Uses[u] = true
				}
			case "forget":
				if curLoop == nil {
					return fmt.Errorf("%s:%d: forget outside loop", filename, l.line)
				}
				curLoop.Forget = true
			case "captures":
				// captures frozen v1 v2: the literal relies on these captured variables keeping the value they had when
				// it was created (it outlives the statement that creates it); checked in the enclosing function
				fs := strings.Fields(strings.ReplaceAll(rest, ",", " "))
				if len(fs) < 2 || fs[0] != "frozen" {
					return fmt.Errorf("%s:%d: bad captures clause (want: captures frozen <names>)", filename, l.line)
				}
				cur.Frozen = append(cur.Frozen, fs[1:]...)
			case "paths":
				n, err := strconv.Atoi(strings.TrimSpace(rest))
				if err != nil || n < 1 {
					return fmt.Errorf("%s:%d: bad paths clause", filename, l.line)
				}
				cur.MaxPaths = n
			case "pure":
				cur.Pure = true
			case "nopanic":
				cur.NoPanic = true
			case "props":
				cur.Props = strings.Fields(strings.ReplaceAll(rest, ",", " "))
			case "bounded":
				cur.Bounded = rest
			case "skip":
				for _, k := range strings.Fields(rest) {
					cur.Skip[k] = true
				}
			case "recv":
				// recv <channel expression>: assume <expr over `value`>  — a (trusted) channel invariant used at receives
				if g := strings.Index(rest, ": ghost "); g >= 0 {
					// recv <channel expression>: ghost name = expr   — ghost update performed at every receive from it
					parts := strings.SplitN(rest[g+len(": ghost "):], "=", 2)
					if len(parts) != 2 {
						return fmt.Errorf("%s:%d: bad recv ghost clause", filename, l.line)
					}
					cl, err := mk(strings.TrimSpace(parts[1]))
					if err != nil {
						return fmt.Errorf("%s:%d: %v", filename, l.line, err)
					}
					cur.RecvGhosts = append(cur.RecvGhosts, RecvGhost{Chan: strings.TrimSpace(rest[:g]), Name: strings.TrimSpace(parts[0]), Clause: cl})
					break
				}
				k := strings.Index(rest, ": assume ")
				if k < 0 {
					return fmt.Errorf("%s:%d: bad recv clause", filename, l.line)
				}
				cl, err := mk(strings.TrimSpace(rest[k+len(": assume "):]))
				if err != nil {
					return fmt.Errorf("%s:%d: %v", filename, l.line, err)
				}
				if cur.Recvs == nil {
					cur.Recvs = map[string]*Clause{}
				}
				cur.Recvs[strings.TrimSpace(rest[:k])] = cl
			case "note":
				cur.Notes = append(cur.Notes, rest)
			case "replay":
				// replay <label> <template> k=expr ...
				parts := strings.SplitN(strings.TrimSpace(rest), " ", 2)
				if len(parts) == 2 {
					cur.Replay[parts[0]] = parts[1]
				}
			case "ghost":
				// ghost name type [= expr]
				parts := strings.SplitN(rest, "=", 2)
				hd := strings.Fields(parts[0])
				if len(hd) < 2 {
					return fmt.Errorf("%s:%d: ghost needs name and type", filename, l.line)
				}
				g := &GhostDecl{Name: hd[0], Type: strings.Join(hd[1:], " ")}
				if len(parts) == 2 {
					cl, err := mk(strings.TrimSpace(parts[1]))
					if err != nil {
						return err
					}
					g.Init = cl
				}
				cur.Ghosts = append(cur.Ghosts, g)
			case "at", "after":
				// at call [N] callee: assert[label] expr | ghost x = expr     (before the call, arguments evaluated)
				// after call [N] callee: ...                                  (after it returned; result, result0, ... bound)
				at, err := parseAt(rest, mk)
				if err != nil {
					return fmt.Errorf("%s:%d: %v", filename, l.line, err)
				}
				at.After = kw == "after"
				cur.Ats = append(cur.Ats, at)
			default:
				return fmt.Errorf("%s:%d: unknown clause keyword %q", filename, l.line, kw)
			}
		}
	}
	return nil
}

func splitKw(s string) (string, string) {
	i := strings.IndexAny(s, " \t[")
	if i < 0 {
		return strings.TrimSuffix(s, ":"), ""
	}
	if s[i] == '[' {
		return s[:i], s[i:]
	}
	return s[:i], strings.TrimSpace(s[i:])
}

func splitTop(s string, sep byte) []string {
	var out []string
	depth := 0
	start := 0
	for i := 0; i < len(s); i++ {
		switch s[i] {
		case '(', '[', '{':
			depth++
		case ')', ']', '}':
			depth--
		default:
			if s[i] == sep && depth == 0 {
				out = append(out, s[start:i])
				start = i + 1
			}
		}
	}
	if strings.TrimSpace(s[start:]) != "" {
		out = append(out, s[start:])
	}
	return out
}

func parseSpecFunc(rest string) (*SpecFunc, error) {
	eq := -1
	depth := 0
	for i := 0; i < len(rest); i++ {
		switch rest[i] {
		case '(', '[':
			depth++
		case ')', ']':
			depth--
		case '=':
			if depth == 0 && eq < 0 && (i+1 >= len(rest) || rest[i+1] != '=') && (i == 0 || (rest[i-1] != '=' && rest[i-1] != '!' && rest[i-1] != '<' && rest[i-1] != '>')) {
				eq = i
			}
		}
	}
	if eq < 0 {
		return nil, fmt.Errorf("spec function needs '='")
	}
	head, body := strings.TrimSpace(rest[:eq]), strings.TrimSpace(rest[eq+1:])
	lp := strings.Index(head, "(")
	rp := strings.LastIndex(head, ")")
	if lp < 0 || rp < lp {
		return nil, fmt.Errorf("spec function needs a parameter list")
	}
	sf := &SpecFunc{Name: strings.TrimSpace(head[:lp]), Result: strings.TrimSpace(head[rp+1:]), Src: body}
	for _, p := range splitTop(head[lp+1:rp], ',') {
		p = strings.TrimSpace(p)
		k := strings.IndexAny(p, " \t")
		if k < 0 {
			return nil, fmt.Errorf("bad spec parameter %q", p)
		}
		sf.Params = append(sf.Params, SBinder{p[:k], strings.TrimSpace(p[k:])})
	}
	e, err := ParseSpec(body)
	if err != nil {
		return nil, err
	}
	sf.Body = e
	return sf, nil
}

var atRe = regexp.MustCompile(`^call(?:\s+(\d+))?\s+([A-Za-z0-9_.$()\[\]*]+)\s*:\s*(assert|ghost|assume|gadd)\s*(.*)$`)

func parseAt(rest string, mk func(string) (*Clause, error)) (*AtClause, error) {
	m := atRe.FindStringSubmatch(rest)
	if m == nil {
		return nil, fmt.Errorf("bad at-clause %q", rest)
	}
	at := &AtClause{Callee: m[2], Kind: m[3]}
	if m[1] != "" {
		at.Nth, _ = strconv.Atoi(m[1])
	}
	switch at.Kind {
	case "assert", "assume":
		cl, err := mk(m[4])
		if err != nil {
			return nil, err
		}
		at.Clause = cl
	case "gadd":
		// gadd <set> <expr>: add the value to a ghost set
		parts := strings.SplitN(strings.TrimSpace(m[4]), " ", 2)
		if len(parts) != 2 {
			return nil, fmt.Errorf("bad gadd %q", m[4])
		}
		cl, err := mk(strings.TrimSpace(parts[1]))
		if err != nil {
			return nil, err
		}
		at.Clause = cl
		at.Ghost = parts[0]
	case "ghost":
		at.Ghost = strings.TrimSpace(m[4])
		// ghost name = expr | name++
		if strings.HasSuffix(at.Ghost, "++") {
			n := strings.TrimSuffix(at.Ghost, "++")
			cl, err := mk(n + " + 1")
			if err != nil {
				return nil, err
			}
			at.Clause = cl
			at.Ghost = strings.TrimSpace(n)
		} else {
			parts := strings.SplitN(at.Ghost, "=", 2)
			if len(parts) != 2 {
				return nil, fmt.Errorf("bad ghost update %q", at.Ghost)
			}
			cl, err := mk(strings.TrimSpace(parts[1]))
			if err != nil {
				return nil, err
			}
			at.Clause = cl
			at.Ghost = strings.TrimSpace(parts[0])
		}
	}
	return at, nil
}
