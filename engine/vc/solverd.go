package vc

import (
	"bufio"
	"encoding/json"
	"io"
	"os"
	"os/exec"
	"sync"
	"time"
)

// solverd.go: forking solver processes from the generator's large address space costs ~0.1-0.5 s
// per exec; a small helper process started before the packages are loaded does the exec'ing.

type raceReq struct {
	ID     int      `json:"id"`
	File   string   `json:"file"`
	Millis int64    `json:"ms"`
	All    bool     `json:"all"`
	Only   []string `json:"only"`
}

type raceResp struct {
	ID      int            `json:"id"`
	Answers []SolverAnswer `json:"answers"`
}

// ServeSolvers is the helper's main loop (govc solverd).
func ServeSolvers(in io.Reader, out io.Writer) {
	sc := bufio.NewScanner(in)
	sc.Buffer(make([]byte, 1<<20), 1<<20)
	var mu sync.Mutex
	var wg sync.WaitGroup
	for sc.Scan() {
		var rq raceReq
		if json.Unmarshal(sc.Bytes(), &rq) != nil {
			continue
		}
		wg.Add(1)
		go func(rq raceReq) {
			defer wg.Done()
			as := raceLocal(rq.File, time.Duration(rq.Millis)*time.Millisecond, rq.All, rq.Only)
			b, _ := json.Marshal(raceResp{ID: rq.ID, Answers: as})
			mu.Lock()
			out.Write(append(b, '\n'))
			mu.Unlock()
		}(rq)
	}
	wg.Wait()
}

type solverClient struct {
	mu      sync.Mutex
	w       io.Writer
	pending map[int]chan []SolverAnswer
	next    int
	cmd     *exec.Cmd
	dead    bool
}

var remote *solverClient
var remotes []*solverClient
var rrNext int
var rrMu sync.Mutex

// StartSolverHelper launches the helper process; call it before loading packages.
func StartSolverHelper() {
	for i := 0; i < 6; i++ {
		startOneHelper()
		if remote != nil {
			remotes = append(remotes, remote)
		}
	}
}

func startOneHelper() {
	remote = nil
	exe, err := os.Executable()
	if err != nil {
		return
	}
	cmd := exec.Command(exe, "solverd")
	cmd.Env = append(os.Environ(), "GOMAXPROCS=2")
	stdin, err1 := cmd.StdinPipe()
	stdout, err2 := cmd.StdoutPipe()
	cmd.Stderr = os.Stderr
	if err1 != nil || err2 != nil || cmd.Start() != nil {
		return
	}
	cl := &solverClient{w: stdin, pending: map[int]chan []SolverAnswer{}, cmd: cmd}
	go func() {
		sc := bufio.NewScanner(stdout)
		sc.Buffer(make([]byte, 1<<22), 1<<22)
		for sc.Scan() {
			var rp raceResp
			if json.Unmarshal(sc.Bytes(), &rp) != nil {
				continue
			}
			cl.mu.Lock()
			ch := cl.pending[rp.ID]
			delete(cl.pending, rp.ID)
			cl.mu.Unlock()
			if ch != nil {
				ch <- rp.Answers
			}
		}
		// helper died: fail pending requests over to local execution
		cl.mu.Lock()
		for id, ch := range cl.pending {
			close(ch)
			delete(cl.pending, id)
		}
		cl.dead = true
		cl.mu.Unlock()
	}()
	remote = cl
}

func race(file string, timeout time.Duration, all bool, only []string) []SolverAnswer {
	var cl *solverClient
	rrMu.Lock()
	if len(remotes) > 0 {
		rrNext++
		cl = remotes[rrNext%len(remotes)]
	}
	rrMu.Unlock()
	if cl == nil || cl.dead {
		return raceLocal(file, timeout, all, only)
	}
	ch := make(chan []SolverAnswer, 1)
	cl.mu.Lock()
	cl.next++
	id := cl.next
	cl.pending[id] = ch
	b, _ := json.Marshal(raceReq{ID: id, File: file, Millis: timeout.Milliseconds(), All: all, Only: only})
	_, err := cl.w.Write(append(b, '\n'))
	cl.mu.Unlock()
	if err != nil {
		return raceLocal(file, timeout, all, only)
	}
	select {
	case as, ok := <-ch:
		if !ok {
			return raceLocal(file, timeout, all, only)
		}
		return as
	case <-time.After(timeout + 30*time.Second):
		return raceLocal(file, timeout, all, only)
	}
}
