package vc

import (
	"go/ast"
	"go/constant"
	"go/token"
	"go/types"
	"strings"
)

// models.go: trusted models of library functions (DESIGN 2.2 table). Every model is listed in the
// evidence as part of the trusted base.

// ---- errors --------------------------------------------------------------------------------------------

const tidWrapError = "tid_*fmt.wrapError"
const tidFmtError = "tid_*fmt.fmtError"
const tidErrorString = "tid_*errors.errorString"

type errTypeInfo struct {
	t      types.Type
	unwrap *types.Var // field returned by Unwrap(), nil when the type has no Unwrap method
	opaque bool       // has an Unwrap method the generator cannot read
	isMeth bool       // has an Is method (errors.Is consults it): treated as opaque
}

// errorTypes enumerates the named types of the loaded packages that implement error, with the
// shape of their Unwrap method read from the method sets (not assumed).
func (x *fnv) errorTypes() []errTypeInfo {
	if x.p.errTypes != nil {
		return x.p.errTypes
	}
	errIface := types.Universe.Lookup("error").Type().Underlying().(*types.Interface)
	var out []errTypeInfo
	for _, pk := range x.p.sortedPkgs() {
		sc := pk.Types.Scope()
		for _, name := range sc.Names() {
			tn, ok := sc.Lookup(name).(*types.TypeName)
			if !ok || tn.IsAlias() {
				continue
			}
			named, ok := tn.Type().(*types.Named)
			if !ok || named.TypeParams().Len() > 0 {
				continue
			}
			for _, t := range []types.Type{named, types.NewPointer(named)} {
				if _, isIface := t.Underlying().(*types.Interface); isIface {
					continue
				}
				if !types.Implements(t, errIface) {
					continue
				}
				if _, ok := t.(*types.Named); ok && types.Implements(t, errIface) {
					// value receiver: both T and *T implement; record both
				}
				info := errTypeInfo{t: t}
				ms := types.NewMethodSet(t)
				if sel := ms.Lookup(pk.Types, "Unwrap"); sel != nil {
					info.opaque = true
					if fi := x.p.ByObj[sel.Obj().(*types.Func)]; fi != nil {
						if f := simpleFieldReturn(fi); f != nil {
							info.unwrap, info.opaque = f, false
						}
					}
				}
				if sel := ms.Lookup(pk.Types, "Is"); sel != nil {
					info.isMeth = true
				}
				out = append(out, info)
			}
		}
	}
	x.p.errTypes = out
	if out == nil {
		x.p.errTypes = []errTypeInfo{}
	}
	return out
}

// simpleFieldReturn recognises `func (r *T) Unwrap() error { return r.f }`.
func simpleFieldReturn(fi *FuncInfo) *types.Var {
	if fi.Decl == nil || len(fi.Body.List) != 1 {
		return nil
	}
	ret, ok := fi.Body.List[0].(*ast.ReturnStmt)
	if !ok || len(ret.Results) != 1 {
		return nil
	}
	sel, ok := ret.Results[0].(*ast.SelectorExpr)
	if !ok {
		return nil
	}
	if id, ok := sel.X.(*ast.Ident); !ok || fi.Recv == nil || fi.Pkg.TypesInfo.ObjectOf(id) != fi.Recv {
		return nil
	}
	if s, ok := fi.Pkg.TypesInfo.Selections[sel]; ok && s.Kind() == types.FieldVal && len(s.Index()) == 1 {
		return s.Obj().(*types.Var)
	}
	return nil
}

// unwrapOf is the next error in the Unwrap chain of e (nil when e's dynamic type has no Unwrap).
func (x *fnv) unwrapOf(s *State, e *Term) *Term {
	c := x.c
	d := x.dyn(e)
	res := c.App("ext_unwrap", SInt, e) // dynamic types outside the loaded packages
	for _, et := range x.errorTypes() {
		var u *Term
		switch {
		case et.opaque:
			continue
		case et.unwrap == nil:
			u = c.Int(0)
		default:
			pt, ok := et.t.(*types.Pointer)
			if !ok {
				continue
			}
			p := x.unbox(s, e, et.t)
			u = x.h.ReadField(s, pt.Elem(), et.unwrap, p.Term).Term
		}
		res = c.Ite(c.Eq(d, x.tid(et.t)), u, res)
	}
	res = c.Ite(c.Eq(d, c.DistinctConst("tid", tidWrapError)), c.App("fmt_unwrap", SInt, e), res)
	res = c.Ite(c.Or(c.Eq(d, c.DistinctConst("tid", tidFmtError)), c.Eq(d, c.DistinctConst("tid", tidErrorString))), c.Int(0), res)
	return res
}

// errIs is errors.Is(e, t) for comparable targets and dynamic types without an Is method:
// the least relation with errIs(e,t) <=> e != nil && (e == t || errIs(unwrap(e), t)).
// The unfolding is asserted for e and the next two links of its chain.
func (x *fnv) errIs(s *State, e, t *Term) *Term {
	c := x.c
	r := c.App("errIs", SBool, e, t)
	if e.HasBVar() {
		return r
	}
	cur := e
	for depth := 0; depth < 3; depth++ {
		key := c.App("errIs_unfolded", SBool, cur)
		if s.typed[key] {
			break
		}
		s.typed[key] = true
		u := c.NameTerm("unw", x.unwrapOf(s, cur))
		bt := c.BVar("t", SInt)
		s.Assume(c.Forall([]*Term{bt}, c.Eq(c.App("errIs", SBool, cur, bt),
			c.And(c.Ne(cur, c.Int(0)), c.Or(c.Eq(cur, bt), c.App("errIs", SBool, u, bt))))))
		if !t.HasBVar() {
			s.Assume(c.Eq(c.App("errIs", SBool, cur, t), c.And(c.Ne(cur, c.Int(0)), c.Or(c.Eq(cur, t), c.App("errIs", SBool, u, t)))))
		}
		cur = u
	}
	sink := sinkOf(s)
	nilFact := c.App("errIs_nilfact", SBool)
	if !sink.typed[nilFact] {
		sink.typed[nilFact] = true
		bt := c.BVar("t", SInt)
		s.Assume(c.Forall([]*Term{bt}, c.Not(c.App("errIs", SBool, c.Int(0), bt))))
	}
	return r
}

func (x *fnv) newError(s *State, tidName string) *Term {
	c := x.c
	e := x.h.alloc(s, "err")
	s.Assume(c.Eq(x.dyn(e), c.DistinctConst("tid", tidName)))
	return e
}

// wrapVerbArg returns the index (among the variadic args) of the first %w operand, or -1.
func wrapVerbArg(format string) int {
	arg := 0
	for i := 0; i < len(format); i++ {
		if format[i] != '%' {
			continue
		}
		i++
		for i < len(format) && strings.ContainsRune("+-# 0123456789.*[]", rune(format[i])) {
			i++
		}
		if i >= len(format) {
			break
		}
		switch format[i] {
		case '%':
			continue
		case 'w':
			return arg
		}
		arg++
	}
	return -1
}

// ---- dispatch ------------------------------------------------------------------------------------------

// modelCall handles library functions with a built-in (trusted) model.
func (x *fnv) modelCall(s *State, fo *types.Func, recv *Value, args []Value, call *ast.CallExpr) ([]Value, bool) {
	c := x.c
	full := fo.FullName()
	errT := types.Universe.Lookup("error").Type()
	one := func(v Value) ([]Value, bool) { return []Value{v}, true }
	switch full {
	case "fmt.Errorf":
		x.p.noteModel("fmt.Errorf: returns a fresh non-nil error whose Unwrap is the first %w operand")
		w := -1
		known := false
		if tv, ok := x.info.Types[call.Args[0]]; ok && tv.Value != nil && tv.Value.Kind() == constant.String {
			w = wrapVerbArg(constant.StringVal(tv.Value))
			known = true
		}
		if !known {
			e := x.h.alloc(s, "err")
			return one(Value{T: errT, Term: e})
		}
		if w < 0 {
			return one(Value{T: errT, Term: x.newError(s, tidFmtError)})
		}
		e := x.newError(s, tidWrapError)
		va := args[1] // variadic slice
		op := x.h.ReadElem(s, va.T.Underlying().(*types.Slice).Elem(), va.Sl.Arr, c.Add(va.Sl.Off, c.Int(int64(w))))
		// the operand must itself be an error for %w to wrap; non-error operands yield no Unwrap link
		s.Assume(c.Eq(c.App("fmt_unwrap", SInt, e), op.Term))
		return one(Value{T: errT, Term: e})
	case "errors.New":
		x.p.noteModel("errors.New: returns a fresh non-nil error without Unwrap")
		return one(Value{T: errT, Term: x.newError(s, tidErrorString)})
	case "errors.Is":
		x.p.noteModel("errors.Is: Unwrap-chain search by ==; Is methods and multi-error Unwrap() []error are not modelled")
		return one(Value{T: types.Typ[types.Bool], Term: x.errIs(s, args[0].Term, args[1].Term)})
	case "errors.As":
		x.p.noteModel("errors.As: Unwrap-chain search (depth 3 explicit, deeper links arbitrary) for the target's element type")
		return x.modelErrorsAs(s, args, call)
	case "reflect.TypeOf":
		x.p.noteModel("reflect.TypeOf: the dynamic type id of the interface value (nil for a nil interface)")
		s.Assume(c.Implies(c.Ne(args[0].Term, c.Int(0)), c.Ne(x.dyn(args[0].Term), c.Int(0)))) // a non-nil interface value has a type
		return one(Value{T: fo.Type().(*types.Signature).Results().At(0).Type(), Term: x.dyn(args[0].Term)})
	case "reflect.SliceOf", "reflect.PtrTo", "reflect.PointerTo", "reflect.New", "reflect.Zero":
		// library precondition: these panic on a nil reflect.Type
		x.p.noteModel("reflect.SliceOf/PointerTo/New/Zero: panic on a nil reflect.Type (library precondition checked as a safety obligation); results are opaque")
		x.safe(s, "nilrtype", c.Not(c.Eq(args[0].Term, c.Int(0))), call.Pos())
		rt := fo.Type().(*types.Signature).Results().At(0).Type()
		if isReflectType(rt) {
			r := c.App("rt_"+fo.Name(), SInt, args[0].Term)
			s.Assume(c.Gt(r, c.Int(0)))
			return one(Value{T: rt, Term: r})
		}
		return one(x.h.freshValue(s, rt, "reflect_"+fo.Name()))
	case "(reflect.Type).Kind", "(reflect.Type).Implements", "(reflect.Type).AssignableTo", "(reflect.Type).Elem", "(reflect.Type).Key", "(reflect.Type).String", "(reflect.Type).Name":
		// a method call on a nil reflect.Type is a nil-interface method call: it panics. Checked for types obtained from
		// reflect.TypeOf (nil for a nil interface value); a reflect.Type read from a field or returned by an opaque
		// reflect call is assumed valid, as before
		if isDynTerm(recv.Term) {
			x.safe(s, "nilrtype", c.Not(c.Eq(recv.Term, c.Int(0))), call.Pos())
		}
	}
	switch full {
	case "(reflect.Type).Kind":
		return one(Value{T: fo.Type().(*types.Signature).Results().At(0).Type(), Term: x.rtKind(s, recv.Term)})
	case "(reflect.Type).Implements":
		return one(Value{T: types.Typ[types.Bool], Term: c.App("rt_implements", SBool, recv.Term, args[0].Term)})
	case "(reflect.Type).AssignableTo":
		return one(Value{T: types.Typ[types.Bool], Term: c.App("rt_assignable", SBool, recv.Term, args[0].Term)})
	case "(reflect.Type).Elem":
		return one(Value{T: recv.T, Term: c.App("rt_elem", SInt, recv.Term)})
	case "(reflect.Type).Key":
		return one(Value{T: recv.T, Term: c.App("rt_key", SInt, recv.Term)})
	case "(reflect.Type).String", "(reflect.Type).Name":
		r := c.App("rt_string", SInt, recv.Term)
		s.Assume(c.Ge(r, c.Int(0)))
		return one(Value{T: types.Typ[types.String], Term: r})
	case "(*sync.Mutex).Lock", "(*sync.Mutex).Unlock", "(*sync.RWMutex).Lock", "(*sync.RWMutex).Unlock":
		x.p.noteModel("sync.Mutex: ghost held bit per mutex field; Lock requires !held, Unlock requires held")
		x.modelMutex(s, call, strings.HasSuffix(full, ".Lock"))
		return nil, true
	case "(context.Context).Value":
		x.p.noteModel("context: a context is a persistent map from key to value (WithValue shadows, Value looks up)")
		k := x.coerce(s, args[0], types.NewInterfaceType(nil, nil))
		m := x.h.region(s, "CTX", 2, SInt)
		v := c.Read(m, recv.Term, k.Term)
		rv := Value{T: fo.Type().(*types.Signature).Results().At(0).Type(), Term: v}
		x.h.assumeTyped(s, rv)
		return one(rv)
	case "context.WithValue":
		x.p.noteModel("context: a context is a persistent map from key to value (WithValue shadows, Value looks up)")
		n := x.h.alloc(s, "ctx")
		m := x.h.region(s, "CTX", 2, SInt)
		cp := &Mem{kind: MCopyRef, Name: m.Name, Arity: 2, Sort: SInt, prev: m, ref: n, srcRef: args[0].Term, src: m, depth: m.depth + 1}
		s.mem["CTX"] = c.Store(cp, n, args[1].Term, args[2].Term)
		return one(Value{T: args[0].T, Term: n})
	case "context.Background", "context.TODO":
		n := x.h.alloc(s, "ctx")
		m := x.h.region(s, "CTX", 2, SInt)
		s.mem["CTX"] = c.InitRef(m, n, c.Int(0))
		return one(Value{T: fo.Type().(*types.Signature).Results().At(0).Type(), Term: n})
	}
	return nil, false
}

// modelWrites lists the regions a modelled library call writes (for loop havoc).
func (x *fnv) modelWrites(fo *types.Func) []string {
	switch fo.FullName() {
	case "context.WithValue", "context.Background":
		return []string{"CTX"}
	case "(*sync.Mutex).Lock", "(*sync.Mutex).Unlock":
		return []string{"LOCK"}
	case "(*sync.Once).Do":
		return []string{"ONCE"}
	case "errors.As":
		return []string{"*"}
	}
	return nil
}

func (x *fnv) rtKind(s *State, t *Term) *Term {
	r := x.c.App("rt_kind", SInt, t)
	if !r.HasBVar() && !s.typed[r] {
		s.typed[r] = true
		s.Assume(x.c.And(x.c.Ge(r, x.c.Int(0)), x.c.Le(r, x.c.Int(26))))
	}
	return r
}

func (x *fnv) modelMutex(s *State, call *ast.CallExpr, lock bool) {
	c := x.c
	sel := ast.Unparen(call.Fun).(*ast.SelectorExpr)
	var addr *Term
	if _, isPtr := x.typeOf(sel.X).Underlying().(*types.Pointer); isPtr {
		// a *sync.Mutex value (e.g. obtained from &obj.mu)
		p := x.eval(s, sel.X)
		x.safe(s, "nil", c.Not(c.Eq(p.Term, c.Int(0))), call.Pos())
		addr = p.Term
	} else {
		mu, ok := ast.Unparen(sel.X).(*ast.SelectorExpr)
		if !ok {
			panic(unsupported("mutex that is neither a struct field nor a pointer: %s", types.ExprString(sel.X)))
		}
		owner := x.eval(s, mu.X)
		pt, ok := owner.T.Underlying().(*types.Pointer)
		if !ok {
			panic(unsupported("mutex owner is not a pointer"))
		}
		x.safe(s, "nil", c.Not(c.Eq(owner.Term, c.Int(0))), call.Pos())
		addr = x.muAddr(s, pt.Elem(), mu.Sel.Name, owner.Term)
	}
	rn := lockRegionName
	m := x.h.region(s, rn, 1, SBool)
	held := c.Read(m, addr, nil)
	if lock {
		x.oblige(s, "lock", "acquire."+itoa(x.nextOrd("lock")), c.Not(held), call.Pos(), nil)
		s.mem[rn] = c.Store(m, addr, nil, c.True())
	} else {
		x.oblige(s, "lock", "release."+itoa(x.nextOrd("lock")), held, call.Pos(), nil)
		s.mem[rn] = c.Store(m, addr, nil, c.False())
	}
}

func (x *fnv) lockAcquired(s *State, owner types.Type, field string, ref *Term, call *ast.CallExpr) {}
func (x *fnv) lockReleasing(s *State, owner types.Type, field string, ref *Term, call *ast.CallExpr) {
}

func itoa(n int) string {
	if n == 0 {
		return "0"
	}
	var b []byte
	for n > 0 {
		b = append([]byte{byte('0' + n%10)}, b...)
		n /= 10
	}
	return string(b)
}

// modelErrorsAs models errors.As(err, &target) for a boxed local target.
func (x *fnv) modelErrorsAs(s *State, args []Value, call *ast.CallExpr) ([]Value, bool) {
	c := x.c
	// target type from the static type of the second argument (pointer to T)
	tt := x.typeOf(call.Args[1])
	pt, ok := tt.Underlying().(*types.Pointer)
	if !ok {
		panic(unsupported("errors.As target %s", typeStr(tt)))
	}
	T := pt.Elem()
	tptr := x.unbox(s, args[1].Term, tt) // args[1] was boxed into `any`
	e0 := args[0].Term
	e1 := c.NameTerm("unw", x.unwrapOf(s, e0))
	e2 := c.NameTerm("unw", x.unwrapOf(s, e1))
	chain := []*Term{e0, e1, e2}
	deepOk := c.Fresh("as_deep", SBool)
	deepVal := x.h.freshValue(s, T, "as_deep")
	found := deepOk
	val := deepVal
	// beyond depth 3 the search result is arbitrary but must have the right dynamic type
	if kindOf(T) == kIface {
		s.Assume(c.Implies(deepOk, c.Ne(deepVal.Term, c.Int(0))))
	}
	for i := len(chain) - 1; i >= 0; i-- {
		is := x.isType(s, chain[i], T)
		var v Value
		if kindOf(T) == kIface {
			v = Value{T: T, Term: chain[i]}
		} else {
			v = x.unbox(s, chain[i], T)
		}
		val = x.h.iteValue(is, v, val)
		// the chain ends at nil: nothing deeper
		found = c.Or(is, c.And(c.Ne(chain[i], c.Int(0)), found))
	}
	found = c.NameTerm("as_ok", found)
	if _, isPtr := T.Underlying().(*types.Pointer); isPtr {
		x.assumeNote("A-NONNIL-ERR: an error value never holds a typed-nil pointer (errors.As results are non-nil pointers)")
		s.Assume(c.Implies(found, c.Ne(val.Term, c.Int(0))))
	}
	cur := x.h.LoadPtr(s, T, tptr.Term)
	x.h.StorePtr(s, T, tptr.Term, x.h.iteValue(found, val, cur))
	return []Value{{T: types.Typ[types.Bool], Term: found}}, true
}

// preModelCall models library calls whose arguments cannot be evaluated as ordinary values: atomic operations on
// a struct field (&x.f) and sync.Once.Do with a function literal.
func (x *fnv) preModelCall(s *State, fo *types.Func, call *ast.CallExpr) ([]Value, bool) {
	c := x.c
	full := fo.FullName()
	switch full {
	case "sync/atomic.AddUint32", "sync/atomic.AddInt32", "sync/atomic.AddInt64", "sync/atomic.AddUint64",
		"sync/atomic.LoadUint32", "sync/atomic.LoadInt32", "sync/atomic.LoadInt64", "sync/atomic.LoadUint64",
		"sync/atomic.StoreUint32", "sync/atomic.StoreInt32", "sync/atomic.StoreInt64", "sync/atomic.StoreUint64":
		u, ok := ast.Unparen(call.Args[0]).(*ast.UnaryExpr)
		if !ok || u.Op != token.AND {
			return nil, false
		}
		if _, ok := ast.Unparen(u.X).(*ast.SelectorExpr); !ok {
			return nil, false
		}
		x.p.noteModel("sync/atomic on a struct field: an indivisible read-modify-write of that field (no interleaving is enumerated)")
		l := x.lvalue(s, u.X)
		cur := x.loadLoc(s, l)
		switch {
		case strings.Contains(full, ".Add"):
			d := x.eval(s, call.Args[1])
			nv := Value{T: cur.T, Term: c.Add(cur.Term, d.Term)}
			x.storeLoc(s, l, nv)
			return []Value{nv}, true
		case strings.Contains(full, ".Load"):
			return []Value{cur}, true
		default:
			v := x.eval(s, call.Args[1])
			x.storeLoc(s, l, x.coerce(s, v, cur.T))
			return nil, true
		}
	case "(*sync.Once).Do":
		lit, ok := ast.Unparen(call.Args[0]).(*ast.FuncLit)
		if !ok {
			return nil, false
		}
		sel := ast.Unparen(call.Fun).(*ast.SelectorExpr)
		fsel, ok := ast.Unparen(sel.X).(*ast.SelectorExpr)
		if !ok {
			return nil, false
		}
		owner := x.eval(s, fsel.X)
		pt, ok := owner.T.Underlying().(*types.Pointer)
		if !ok {
			return nil, false
		}
		x.p.noteModel("sync.Once: ghost done bit per Once field; Do(f) runs f exactly when the bit is clear and sets it (concurrent callers are not enumerated)")
		x.safe(s, "nil", c.Not(c.Eq(owner.Term, c.Int(0))), call.Pos())
		addr := x.muAddr(s, pt.Elem(), fsel.Sel.Name, owner.Term)
		m := x.h.region(s, onceRegionName, 1, SBool)
		done := c.Read(m, addr, nil)
		first := s.Clone()
		first.Assume(c.Not(done))
		first.mem[onceRegionName] = c.Store(first.mem[onceRegionName], addr, nil, c.True())
		x.inlineLit(first, lit, nil, call.Pos())
		again := s.Clone()
		again.Assume(done)
		*s = *x.h.Merge([]*State{first, again})
		return nil, true
	}
	return nil, false
}

const onceRegionName = "ONCE"

// isDynTerm reports whether t is the dynamic-type id of an interface value (the model of reflect.TypeOf).
func isDynTerm(t *Term) bool {
	return t != nil && t.Op == "app" && t.Name == "dyn"
}
