package vc

import (
	"fmt"
	"strings"
)

// specparse.go: the contract expression language (Go expression syntax plus ==>, <==>, ?:,
// forall/exists binders, old(), $-prefixed role variables).

type SExpr interface{ sexpr() }

type (
	SIdent struct{ Name string }
	SNum   struct{ Val string }
	SStr   struct{ Val string }
	SBin   struct {
		Op   string
		L, R SExpr
	}
	SUn struct {
		Op string
		X  SExpr
	}
	SCall struct {
		Fun  SExpr
		Args []SExpr
	}
	SSel struct {
		X    SExpr
		Name string
	}
	SIndex struct{ X, I SExpr }
	SSlice struct{ X, Lo, Hi SExpr }
	SQuant struct {
		Forall bool
		Vars   []SBinder
		Body   SExpr
		Wits   []SExpr // optional witnesses of an existential's binders (nil entries: none)
	}
	SCond   struct{ C, A, B SExpr }
	SDeref  struct{ X SExpr }
	SBinder struct{ Name, Type string }
)

func (SIdent) sexpr() {}
func (SNum) sexpr()   {}
func (SStr) sexpr()   {}
func (SBin) sexpr()   {}
func (SUn) sexpr()    {}
func (SCall) sexpr()  {}
func (SSel) sexpr()   {}
func (SIndex) sexpr() {}
func (SSlice) sexpr() {}
func (SQuant) sexpr() {}
func (SCond) sexpr()  {}
func (SDeref) sexpr() {}

type stok struct {
	kind string // id, int, str, op, eof
	text string
	pos  int
}

func slex(src string) ([]stok, error) {
	var out []stok
	i := 0
	ops := []string{"<==>", "==>", "::", ":=", "==", "!=", "<=", ">=", "&&", "||"}
	for i < len(src) {
		ch := src[i]
		switch {
		case ch == ' ' || ch == '\t' || ch == '\n':
			i++
		case ch >= '0' && ch <= '9':
			j := i
			for j < len(src) && src[j] >= '0' && src[j] <= '9' {
				j++
			}
			out = append(out, stok{"int", src[i:j], i})
			i = j
		case ch == '_' || ch == '$' || ch >= 'a' && ch <= 'z' || ch >= 'A' && ch <= 'Z':
			j := i + 1
			for j < len(src) && (src[j] == '_' || src[j] >= 'a' && src[j] <= 'z' || src[j] >= 'A' && src[j] <= 'Z' || src[j] >= '0' && src[j] <= '9') {
				j++
			}
			out = append(out, stok{"id", src[i:j], i})
			i = j
		case ch == '"':
			j := i + 1
			for j < len(src) && src[j] != '"' {
				if src[j] == '\\' {
					j++
				}
				j++
			}
			if j >= len(src) {
				return nil, fmt.Errorf("unterminated string at %d", i)
			}
			out = append(out, stok{"str", src[i+1 : j], i})
			i = j + 1
		default:
			matched := false
			for _, op := range ops {
				if strings.HasPrefix(src[i:], op) {
					out = append(out, stok{"op", op, i})
					i += len(op)
					matched = true
					break
				}
			}
			if !matched {
				out = append(out, stok{"op", string(ch), i})
				i++
			}
		}
	}
	out = append(out, stok{"eof", "", len(src)})
	return out, nil
}

type sparser struct {
	toks []stok
	p    int
	src  string
}

func ParseSpec(src string) (e SExpr, err error) {
	toks, err := slex(src)
	if err != nil {
		return nil, err
	}
	ps := &sparser{toks: toks, src: src}
	defer func() {
		if r := recover(); r != nil {
			if pe, ok := r.(specErr); ok {
				err = fmt.Errorf("spec parse error: %s in %q", string(pe), src)
				return
			}
			panic(r)
		}
	}()
	e = ps.expr()
	if ps.peek().kind != "eof" {
		ps.fail("unexpected token %q", ps.peek().text)
	}
	return e, nil
}

type specErr string

func (ps *sparser) fail(format string, a ...any) {
	panic(specErr(fmt.Sprintf(format, a...) + fmt.Sprintf(" at offset %d", ps.peek().pos)))
}
func (ps *sparser) peek() stok { return ps.toks[ps.p] }
func (ps *sparser) next() stok { t := ps.toks[ps.p]; ps.p++; return t }
func (ps *sparser) isOp(s string) bool {
	t := ps.peek()
	return t.kind == "op" && t.text == s
}
func (ps *sparser) accept(s string) bool {
	if ps.isOp(s) {
		ps.p++
		return true
	}
	return false
}
func (ps *sparser) expect(s string) {
	if !ps.accept(s) {
		ps.fail("expected %q, got %q", s, ps.peek().text)
	}
}

func (ps *sparser) expr() SExpr {
	l := ps.impl()
	for ps.accept("<==>") {
		r := ps.impl()
		l = SBin{"<==>", l, r}
	}
	return l
}
func (ps *sparser) impl() SExpr {
	l := ps.cond()
	if ps.accept("==>") {
		r := ps.impl()
		return SBin{"==>", l, r}
	}
	return l
}
func (ps *sparser) cond() SExpr {
	c := ps.or()
	if ps.accept("?") {
		a := ps.expr()
		ps.expect(":")
		b := ps.expr()
		return SCond{c, a, b}
	}
	return c
}
func (ps *sparser) or() SExpr {
	l := ps.and()
	for ps.accept("||") {
		l = SBin{"||", l, ps.and()}
	}
	return l
}
func (ps *sparser) and() SExpr {
	l := ps.cmp()
	for ps.accept("&&") {
		l = SBin{"&&", l, ps.cmp()}
	}
	return l
}
func (ps *sparser) cmp() SExpr {
	l := ps.add()
	for _, op := range []string{"==", "!=", "<=", ">=", "<", ">"} {
		if ps.accept(op) {
			return SBin{op, l, ps.add()}
		}
	}
	return l
}
func (ps *sparser) add() SExpr {
	l := ps.mul()
	for {
		switch {
		case ps.accept("+"):
			l = SBin{"+", l, ps.mul()}
		case ps.accept("-"):
			l = SBin{"-", l, ps.mul()}
		default:
			return l
		}
	}
}
func (ps *sparser) mul() SExpr {
	l := ps.unary()
	for {
		switch {
		case ps.accept("*"):
			l = SBin{"*", l, ps.unary()}
		case ps.accept("/"):
			l = SBin{"/", l, ps.unary()}
		case ps.accept("%"):
			l = SBin{"%", l, ps.unary()}
		default:
			return l
		}
	}
}
func (ps *sparser) unary() SExpr {
	switch {
	case ps.accept("!"):
		return SUn{"!", ps.unary()}
	case ps.accept("-"):
		return SUn{"-", ps.unary()}
	case ps.accept("*"):
		return SDeref{ps.unary()}
	}
	return ps.postfix()
}
func (ps *sparser) postfix() SExpr {
	x := ps.primary()
	for {
		switch {
		case ps.accept("."):
			t := ps.next()
			if t.kind != "id" {
				ps.fail("expected field name")
			}
			x = SSel{x, t.text}
		case ps.accept("["):
			if ps.accept(":") {
				var hi SExpr
				if !ps.isOp("]") {
					hi = ps.expr()
				}
				ps.expect("]")
				x = SSlice{x, nil, hi}
				continue
			}
			i := ps.expr()
			if ps.accept(":") {
				var hi SExpr
				if !ps.isOp("]") {
					hi = ps.expr()
				}
				ps.expect("]")
				x = SSlice{x, i, hi}
				continue
			}
			ps.expect("]")
			x = SIndex{x, i}
		case ps.isOp("("):
			ps.next()
			var args []SExpr
			for !ps.isOp(")") {
				args = append(args, ps.expr())
				if !ps.accept(",") {
					break
				}
			}
			ps.expect(")")
			x = SCall{x, args}
		default:
			return x
		}
	}
}

func (ps *sparser) primary() SExpr {
	t := ps.next()
	switch t.kind {
	case "int":
		return SNum{t.text}
	case "str":
		return SStr{t.text}
	case "id":
		if (t.text == "forall" || t.text == "exists") && ps.isOp("(") {
			return ps.quant(t.text == "forall")
		}
		return SIdent{t.text}
	case "op":
		if t.text == "(" {
			e := ps.expr()
			ps.expect(")")
			return e
		}
	}
	ps.p--
	ps.fail("unexpected token %q", t.text)
	return nil
}

// forall(x T, y U :: body); the type is the raw text up to the next top-level ',' or '::'.
func (ps *sparser) quant(forall bool) SExpr {
	ps.expect("(")
	var vars []SBinder
	var wits []SExpr
	for {
		t := ps.next()
		if t.kind != "id" {
			ps.fail("expected binder name")
		}
		start := ps.peek().pos
		depth := 0
		for {
			k := ps.peek()
			if k.kind == "eof" {
				ps.fail("unterminated binder")
			}
			if k.kind == "op" {
				if depth == 0 && (k.text == "," || k.text == "::" || k.text == ":=") {
					break
				}
				if k.text == "[" || k.text == "(" {
					depth++
				}
				if k.text == "]" || k.text == ")" {
					depth--
				}
			}
			ps.next()
		}
		typ := strings.TrimSpace(ps.src[start:ps.peek().pos])
		vars = append(vars, SBinder{t.text, typ})
		// `x T := e`: a witness, used when an existential is a proof goal (the goal becomes body[x := e])
		var w SExpr
		if ps.accept(":=") {
			w = ps.add()
		}
		wits = append(wits, w)
		if ps.accept(",") {
			continue
		}
		ps.expect("::")
		break
	}
	body := ps.expr()
	ps.expect(")")
	return SQuant{forall, vars, body, wits}
}
