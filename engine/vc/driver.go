package vc

import (
	"fmt"
	"go/ast"
	"go/token"
	"go/types"
	"sort"
	"strings"

	"golang.org/x/tools/go/packages"
)

// driver.go: per-function verification driver.

type FuncResult struct {
	Func        string
	ID          string
	Obligations []*Obligation
	Assumed     []string // unchecked assumptions met while generating
	Err         error    // generator refused the function (construct outside the subset, bad contract)
	Trusted     bool
	Props       []string
}

func (p *Prog) sortedPkgs() []*packages.Package {
	ks := make([]string, 0, len(p.Pkgs))
	for k := range p.Pkgs {
		ks = append(ks, k)
	}
	sort.Strings(ks)
	var out []*packages.Package
	for _, k := range ks {
		out = append(out, p.Pkgs[k])
	}
	return out
}

func (p *Prog) noteModel(s string) {
	if p.Models == nil {
		p.Models = map[string]bool{}
	}
	p.Models[s] = true
}

// VerifyFunc generates the obligations of one function under contract.
func (p *Prog) VerifyFunc(fi *FuncInfo, fc *FuncContract) (res *FuncResult) {
	res = &FuncResult{Func: fi.QualName(), ID: fi.ID(), Props: fc.Props}
	if fc.Trusted {
		res.Trusted = true
		return res
	}
	c := NewCtx()
	x := &fnv{p: p, fi: fi, fc: fc, pkg: fi.Pkg, info: fi.Pkg.TypesInfo, c: c, h: NewHeap(c), counters: map[string]int{},
		loopOrd: map[ast.Node]int{}, callOrd: map[string]int{}, boxedVar: map[types.Object]bool{}, assumed: map[string]bool{},
		atDone: map[*AtClause]int{}, litOfVar: map[types.Object]*ast.FuncLit{}, activeLoops: map[int]*loopCtx{}, tids: map[string]types.Type{}, ifaces: map[string]types.Type{}}
	if len(fc.Skip) > 0 {
		var ks []string
		for k := range fc.Skip {
			ks = append(ks, k)
		}
		sort.Strings(ks)
		x.assumeNote("partial verification of " + fi.QualName() + ": obligations of kind " + strings.Join(ks, ", ") + " are not checked (their statements are assumed)")
	}
	if fc.Uses != nil {
		x.assumeNote("partial verification of " + fi.QualName() + ": only the postconditions of the callees listed in its `uses` clause are relied on")
	}
	defer func() {
		if r := recover(); r != nil {
			switch e := r.(type) {
			case Unsupported:
				res.Err = fmt.Errorf("%s: %s (near %s)", fi.QualName(), e.Error(), x.posStr(x.curPos))
			case specFail:
				res.Err = fmt.Errorf("%s: contract error: %s", fi.QualName(), e.msg)
			default:
				panic(r)
			}
		}
		for a := range x.assumed {
			res.Assumed = append(res.Assumed, a)
		}
		sort.Strings(res.Assumed)
		res.Obligations = x.obls
	}()
	x.h.ImplOf = func(v *Term, t types.Type) *Term { return x.implements(x.dyn(v), t) }
	x.prepass(fi.Body)
	// vacuity guard: an assertion (or assumption) hooked to a call that is not in the body would be silently true:
	// it is reported as a failed obligation under its own name
	var orphanHooks []*AtClause
	for _, at := range fc.Ats {
		if at.Kind != "assert" && at.Kind != "assume" {
			continue // a ghost update on a call that is gone simply does not happen: what is stated about the ghost then fails
		}
		n := 0
		for name, k := range x.callOrd {
			if atMatches(at.Callee, name) && k > n {
				n = k
			}
		}
		if n == 0 || at.Nth > n {
			orphanHooks = append(orphanHooks, at)
		}
	}
	s := &State{vars: map[types.Object]Value{}, mem: map[string]*Mem{}, ghost: map[string]Value{}, typed: map[*Term]bool{}}
	s.allocTop = c.Const("top0", SInt)
	s.Assume(c.Ge(s.allocTop, c.Int(0)))
	s.Assume(c.Eq(x.dyn(c.Int(0)), c.Int(0)))
	for _, at := range orphanHooks {
		label := sanitize(at.Callee)
		src := "call hook on " + at.Callee
		var props []string
		if at.Clause != nil {
			if at.Clause.Label != "" {
				label = at.Clause.Label
			}
			src += ": " + at.Clause.Src
			props = at.Clause.Props
		}
		x.curPos = fi.Body.Lbrace + 1
		x.oblige(s.Clone(), "assert", label, c.False(), fi.Body.Lbrace+1, &Clause{Label: label, Src: src + " (the call it is attached to is not in the body: call " + fmt.Sprint(at.Nth) + ")", Props: props})
	}
	// parameters
	x.curPos = fi.Body.Lbrace + 1
	paramVals := map[string]Value{}
	bindParam := func(v *types.Var) {
		if v == nil {
			return
		}
		val := x.h.freshValue(s, v.Type(), "in_"+v.Name())
		if v.Name() != "" && v.Name() != "_" {
			paramVals[v.Name()] = val
		}
		x.declVar(s, v, val)
	}
	if fi.Recv != nil {
		bindParam(fi.Recv)
	}
	var ftype *ast.FuncType
	if fi.Decl != nil {
		ftype = fi.Decl.Type
	} else {
		ftype = fi.Lit.Type
	}
	pi := 0
	for _, fld := range ftype.Params.List {
		names := fld.Names
		if len(names) == 0 {
			names = []*ast.Ident{nil}
		}
		for _, nm := range names {
			var val Value
			if nm != nil {
				if o, ok := x.info.Defs[nm].(*types.Var); ok {
					bindParam(o)
					val = paramVals[o.Name()]
				}
			}
			if val.T == nil && pi < fi.Sig.Params().Len() {
				// blank or unnamed parameter: still an (arbitrary) input, addressable as argN in the contract
				val = x.h.freshValue(s, fi.Sig.Params().At(pi).Type(), fmt.Sprintf("in_arg%d", pi))
			}
			paramVals[fmt.Sprintf("arg%d", pi)] = val
			paramVals[fmt.Sprintf("param%d", pi)] = val // not shadowed by the call arguments in at-clauses
			pi++
		}
	}
	if fi.Recv != nil {
		paramVals["recv"] = paramVals[fi.Recv.Name()]
	}
	fr := &frame{fi: fi}
	fr.results = x.resultVars(s, fi.Sig, ftype.Results)
	x.frames = []*frame{fr}
	// ghost variables
	for _, g := range fc.Ghosts {
		env := x.newSpecEnv(s, s, fi.Pkg.PkgPath)
		t := env.resolveType(g.Type)
		v := x.h.zeroValue(t)
		if g.Init != nil {
			v = x.coerce(s, env.eval(g.Init.Expr), t)
		}
		s.ghost[g.Name] = v
	}
	// package axioms (trusted)
	for _, ax := range p.Contracts.Axioms {
		if ax.PkgPath != fi.Pkg.PkgPath {
			continue
		}
		env := x.newSpecEnv(s, s, fi.Pkg.PkgPath)
		s.Assume(env.assumption(ax.Clause.Expr))
		x.assumeNote("axiom " + ax.Clause.Label + ": " + ax.Clause.Src)
	}
	// preconditions
	for _, cl := range fc.Requires {
		env := x.newSpecEnv(s, s, fi.Pkg.PkgPath)
		env.pos = x.curPos
		for n, v := range paramVals {
			if v.T != nil {
				env.vars[n] = v
			}
		}
		s.Assume(env.assumption(cl.Expr))
	}
	for _, cl := range fc.Assumes {
		env := x.newSpecEnv(s, s, fi.Pkg.PkgPath)
		env.pos = x.curPos
		for n, v := range paramVals {
			if v.T != nil {
				env.vars[n] = v
			}
		}
		s.Assume(env.assumption(cl.Expr))
		x.assumeNote("assumed at entry (not checked at call sites): " + cl.Src)
	}
	x.paramVals = paramVals
	x.entry = s.Clone()
	x.cover(s, "pre", fi.Body.Lbrace)

	fl := x.execBlock(s, fi.Body.List)
	if len(fl.brk)+len(fl.cont) > 0 {
		panic(unsupported("break/continue outside a loop"))
	}
	var ends []*State
	if fl.next != nil {
		ends = append(ends, fl.next)
	}
	ends = append(ends, fl.ret...)
	pans := fl.pan
	var finals []*State
	for len(ends)+len(pans) > 0 {
		var st *State
		if len(ends) > 0 {
			st, ends = ends[0], ends[1:]
		} else {
			st, pans = pans[0], pans[1:]
		}
		x.runDefers(st, fr)
		if len(x.pendingPanics) > 0 {
			// a panic inside a deferred call: remaining defers still run
			pans = append(pans, x.pendingPanics...)
			x.pendingPanics = nil
		}
		if !isLive(st) {
			continue
		}
		if st.panicked {
			x.curPos = fi.Body.Rbrace
			x.oblige(st, "nopanic", "", c.False(), fi.Body.Rbrace, nil)
			continue
		}
		finals = append(finals, st)
	}
	x.curPos = fi.Body.Rbrace
	for i, st := range finals {
		x.checkPost(st, fr, paramVals, i)
	}
	if len(finals) == 0 && len(fc.Ensures) > 0 {
		res.Err = fmt.Errorf("%s: no reachable return; postconditions would hold vacuously", fi.QualName())
	}
	return res
}

// cover records a vacuity guard: the assumptions reaching this point must be satisfiable.
func (x *fnv) cover(s *State, label string, pos token.Pos) {
	o := &Obligation{Name: x.qual() + "#cover." + label, Func: x.qual(), Kind: "cover", Label: label, Props: x.props(nil), Cover: true,
		Pos: x.posStr(pos), ctx: x.c, Goal: x.c.False()}
	o.Assumptions = append([]*Term(nil), s.pc...)
	x.obls = append(x.obls, o)
}

func (x *fnv) checkPost(st *State, fr *frame, paramVals map[string]Value, idx int) {
	c := x.c
	fc := x.fc
	mkEnv := func() *specEnv {
		env := x.newSpecEnv(st, x.entry, x.fi.Pkg.PkgPath)
		env.pos = x.fi.Body.Lbrace + 1
		for n, v := range paramVals {
			if v.T != nil {
				env.vars[n] = v
			}
		}
		for i, rv := range fr.results {
			val := x.readVar(st, rv)
			env.vars[fmt.Sprintf("result%d", i)] = val
			if !strings.HasPrefix(rv.Name(), "$") && rv.Name() != "_" && rv.Name() != "" {
				env.vars[rv.Name()] = val
			}
			if len(fr.results) == 1 {
				env.vars["result"] = val
			}
		}
		return env
	}
	x.cover(st, fmt.Sprintf("return.%d", idx+1), x.fi.Body.Rbrace)
	for i, cl := range fc.Ensures {
		label := cl.Label
		if label == "" {
			label = fmt.Sprintf("%d", i+1)
		}
		g := mkEnv().goal(cl.Expr)
		// do not let one postcondition help the next: check each against the same state
		tmp := st.Clone()
		x.oblige(tmp, "post", label, g, x.fi.Body.Rbrace, cl)
	}
	// closure frame: a function literal under contract may assign a variable captured from its enclosing function
	// only if the contract declares it (modifies captured(name)): such a variable is shared by every invocation of
	// the literal (concurrent runs included)
	if idx == 0 && x.fi.Lit != nil {
		for _, name := range fc.Frozen {
			why := x.frozenViolation(name)
			g := x.c.True()
			if why != "" {
				g = x.c.False()
				x.assumeNote("captures frozen " + name + ": " + why)
			}
			tmp := st.Clone()
			x.oblige(tmp, "frame", "captured_frozen."+name, g, x.fi.Body.Rbrace, &Clause{Src: "captures frozen " + name + " (" + why + ")", Label: "captured_frozen." + name})
		}
		declared := map[string]bool{}
		for _, cl := range fc.Modifies {
			collectCaptured(cl.Expr, declared)
		}
		for _, name := range x.capturedWrites() {
			if declared[name] {
				continue
			}
			tmp := st.Clone()
			x.oblige(tmp, "frame", "captured."+name, c.False(), x.fi.Body.Rbrace, nil)
		}
	}
	// frame: every pre-existing cell outside the modifies clauses is unchanged
	envPre := x.newSpecEnv(x.entry.Clone(), x.entry, x.fi.Pkg.PkgPath)
	envPre.pos = x.fi.Body.Lbrace + 1
	for n, v := range paramVals {
		envPre.vars[n] = v
	}
	var targets []modTarget
	for _, cl := range fc.Modifies {
		targets = append(targets, envPre.evalModTargets(cl.Expr)...)
	}
	names := make([]string, 0, len(st.mem))
	for rn := range st.mem {
		names = append(names, rn)
	}
	sort.Strings(names)
	for _, rn := range names {
		if strings.HasPrefix(rn, "SEEN|") || strings.HasPrefix(rn, "GHOST|") {
			continue
		}
		mf, m0 := st.mem[rn], x.h.init[rn]
		if m0 == nil || mf == m0 {
			continue
		}
		whole := false
		for _, tg := range targets {
			if tg.prefix == rn || regionHasPrefix(rn, tg.prefix) {
				if tg.match(c.Const("probe_ref", SInt), c.Const("probe_idx", SInt)).IsTrue() {
					whole = true
				}
			}
		}
		if whole {
			continue
		}
		ref := c.Fresh("fr_ref", SInt)
		var ix *Term
		if mf.Arity == 2 {
			ix = c.Fresh("fr_idx", SInt)
		}
		pre := []*Term{c.Le(x.ownerOf(rn, ref), x.entry.allocTop), c.Ge(ref, c.Int(0))}
		for _, tg := range targets {
			if regionHasPrefix(rn, tg.prefix) {
				pre = append(pre, c.Not(x.matchIn(tg, rn, ref, ix)))
			}
		}
		g := c.Implies(c.And(pre...), c.Eq(c.Read(mf, ref, ix), c.Read(m0, ref, ix)))
		tmp := st.Clone()
		x.oblige(tmp, "frame", sanitize(rn), g, x.fi.Body.Rbrace, nil)
	}
}

// runDefers executes the deferred calls registered by the frame, last first.
func (x *fnv) runDefers(s *State, fr *frame) {
	for len(s.defers) > fr.deferBase {
		if !isLive(s) {
			return
		}
		d := s.defers[len(s.defers)-1]
		s.defers = s.defers[:len(s.defers)-1]
		if d.lit != nil {
			x.inlineLit(s, d.lit, d.args, d.call.Pos())
			continue
		}
		wasPanicking := s.panicked
		s.panicked = false
		x.evalCall(s, d.call)
		s.panicked = wasPanicking
	}
}

// runAts applies the at-clauses attached to a call of the named callee.
func (x *fnv) runAts(s *State, callee string, call *ast.CallExpr, after bool, results []Value, args []Value, recv *Value) {
	if x.fc == nil || len(x.fc.Ats) == 0 {
		return
	}
	// the ordinal of a call site is its position in source order among the calls with the same callee text
	n := x.callSiteOrd[call]
	for _, at := range x.fc.Ats {
		if !atMatches(at.Callee, callee) || (at.Nth != 0 && at.Nth != n) || at.After != after {
			continue
		}
		x.atDone[at]++
		env := x.newSpecEnv(s, x.entry, x.pkg.PkgPath)
		x.bindLocals(env, x.curLp)
		env.pos = x.curPos // names are resolved at the call site, not at the head of the enclosing loop
		for i, a := range args {
			env.vars[fmt.Sprintf("arg%d", i)] = a
		}
		if recv != nil {
			env.vars["receiver"] = *recv // the value the method is called on, whatever the expression that names it
		}
		if after {
			for i, r := range results {
				env.vars[fmt.Sprintf("result%d", i)] = r
			}
			if len(results) == 1 {
				env.vars["result"] = results[0]
			}
		}
		switch at.Kind {
		case "assert":
			label := at.Clause.Label
			if label == "" {
				label = sanitize(callee)
			}
			g := env.goal(at.Clause.Expr)
			x.oblige(s, "assert", label, g, x.curPos, at.Clause)
			// with witnesses the goal is stronger than the statement; later obligations get the statement too
			// (its existentials skolemise to constants the solvers' triggers can use)
			if a := env.assumption(at.Clause.Expr); a != g {
				s.Assume(a)
			}
		case "assume":
			x.assumeNote("assumed at call " + callee + ": " + at.Clause.Src)
			s.Assume(env.assumption(at.Clause.Expr))
		case "gadd":
			v := env.eval(at.Clause.Expr)
			rn := "GHOST|" + at.Ghost
			x.h.schema[rn] = []regionSchema{{rn, 1, SBool}}
			m := x.h.region(s, rn, 1, SBool)
			s.mem[rn] = x.c.Store(m, v.Term, nil, x.c.True())
		case "ghost":
			old, ok := s.ghost[at.Ghost]
			if !ok {
				panic(specFail{"undeclared ghost variable " + at.Ghost})
			}
			s.ghost[at.Ghost] = x.coerce(s, env.eval(at.Clause.Expr), old.T)
		}
	}
}

// prepass numbers the loops, finds address-taken locals and literal-holding variables.
func (x *fnv) prepass(body *ast.BlockStmt) {
	n := 0
	ast.Inspect(body, func(nd ast.Node) bool {
		switch nd := nd.(type) {
		case *ast.ForStmt, *ast.RangeStmt:
			n++
			x.loopOrd[nd] = n
		case *ast.CallExpr:
			if x.callSiteOrd == nil {
				x.callSiteOrd = map[*ast.CallExpr]int{}
			}
			name := types.ExprString(nd.Fun)
			x.callOrd[name]++
			x.callSiteOrd[nd] = x.callOrd[name]
		case *ast.UnaryExpr:
			if nd.Op == token.AND {
				if id, ok := ast.Unparen(nd.X).(*ast.Ident); ok {
					if o, ok := x.info.ObjectOf(id).(*types.Var); ok && !o.IsField() {
						if o.Parent() != o.Pkg().Scope() {
							x.boxedVar[o] = true
						}
					}
				}
			}
		case *ast.AssignStmt:
			if nd.Tok == token.DEFINE && len(nd.Lhs) == 1 && len(nd.Rhs) == 1 {
				if lit, ok := nd.Rhs[0].(*ast.FuncLit); ok {
					if id, ok := nd.Lhs[0].(*ast.Ident); ok {
						if o := x.info.Defs[id]; o != nil {
							x.litOfVar[o] = lit
						}
					}
				}
			}
		}
		return true
	})
}

// contractRegions lists the region prefixes a contract's modifies clauses touch (evaluated on
// arbitrary arguments; only the region names matter).
func (x *fnv) contractRegions(fc *FuncContract, fo *types.Func) []string {
	if x.p.modRegions == nil {
		x.p.modRegions = map[*FuncContract][]string{}
	}
	if r, ok := x.p.modRegions[fc]; ok {
		return r
	}
	var out []string
	func() {
		defer func() {
			if r := recover(); r != nil {
				if _, ok := r.(specFail); ok {
					out = []string{"*"}
					return
				}
				if _, ok := r.(Unsupported); ok {
					out = []string{"*"}
					return
				}
				panic(r)
			}
		}()
		sc := &State{vars: map[types.Object]Value{}, mem: map[string]*Mem{}, ghost: map[string]Value{}, typed: map[*Term]bool{}, allocTop: x.c.Int(0)}
		env := x.newSpecEnv(sc, sc, fc.PkgPath)
		sig := fo.Type().(*types.Signature)
		if fi := x.p.ByObj[fo.Origin()]; fi != nil {
			sig = fi.Sig
		}
		var recv *Value
		if r := sig.Recv(); r != nil {
			v := x.h.freshValue(sc, r.Type(), "r")
			recv = &v
		}
		var args []Value
		for i := 0; i < sig.Params().Len(); i++ {
			args = append(args, x.h.freshValue(sc, sig.Params().At(i).Type(), "a"))
		}
		x.bindParams(env, sig, recv, args)
		for _, cl := range fc.Modifies {
			for _, tg := range env.evalModTargets(cl.Expr) {
				if tg.fresh {
					continue // callee allocations are new objects, not part of the caller's loop write set
				}
				out = append(out, tg.prefix)
			}
		}
	}()
	x.p.modRegions[fc] = out
	return out
}

// VerifyLemma turns a stand-alone lemma into an obligation.
func (p *Prog) VerifyLemma(lm *Lemma) (res *FuncResult) {
	res = &FuncResult{Func: "lemma " + lm.Name, ID: lm.PkgPath + "::lemma." + lm.Name, Props: lm.Props}
	pk := p.Pkgs[lm.PkgPath]
	if pk == nil {
		res.Err = fmt.Errorf("lemma %s: package %s not loaded", lm.Name, lm.PkgPath)
		return res
	}
	c := NewCtx()
	fi := &FuncInfo{Pkg: pk, Key: "lemma." + lm.Name}
	x := &fnv{p: p, fi: fi, fc: &FuncContract{PkgPath: lm.PkgPath, Props: lm.Props, Skip: map[string]bool{}}, pkg: pk, info: pk.TypesInfo, c: c, h: NewHeap(c),
		counters: map[string]int{}, loopOrd: map[ast.Node]int{}, callOrd: map[string]int{}, boxedVar: map[types.Object]bool{}, assumed: map[string]bool{},
		atDone: map[*AtClause]int{}, litOfVar: map[types.Object]*ast.FuncLit{}, activeLoops: map[int]*loopCtx{}, tids: map[string]types.Type{}, ifaces: map[string]types.Type{}}
	defer func() {
		if r := recover(); r != nil {
			switch e := r.(type) {
			case Unsupported:
				res.Err = fmt.Errorf("lemma %s: %s", lm.Name, e.Error())
			case specFail:
				res.Err = fmt.Errorf("lemma %s: %s", lm.Name, e.msg)
			default:
				panic(r)
			}
		}
		res.Obligations = x.obls
	}()
	s := &State{vars: map[types.Object]Value{}, mem: map[string]*Mem{}, ghost: map[string]Value{}, typed: map[*Term]bool{}}
	s.allocTop = c.Const("top0", SInt)
	s.Assume(c.Ge(s.allocTop, c.Int(0)))
	x.entry = s.Clone()
	env := x.newSpecEnv(s, x.entry, lm.PkgPath)
	for _, b := range lm.Binders {
		t := env.resolveType(b.Type)
		env.vars[b.Name] = x.h.freshValue(s, t, "lem_"+b.Name)
	}
	g := env.goal(lm.Clause.Expr)
	x.oblige(s, "lemma", "", g, token.NoPos, lm.Clause)
	return res
}

// collectCaptured gathers the names in `captured(name, ...)` targets of a modifies clause.
func collectCaptured(ex SExpr, out map[string]bool) {
	if call, ok := ex.(SCall); ok {
		if fn, ok := call.Fun.(SIdent); ok {
			if fn.Name == "captured" {
				for _, a := range call.Args {
					if id, ok := a.(SIdent); ok {
						out[id.Name] = true
					}
				}
				return
			}
			if fn.Name == "targets" {
				for _, a := range call.Args {
					collectCaptured(a, out)
				}
			}
		}
	}
}

// frozenViolation checks a `captures frozen v` declaration of the literal under verification against its enclosing
// function: the variable must be captured by the literal, and must not be assigned after the literal was created.
// "After" is decided on the syntax of the enclosing body: (a) the literal sits in a loop, the variable is declared
// outside that loop's body (a loop variable of a module whose go directive is older than 1.22 is one variable for
// all iterations) and is assigned in the loop: the next iteration changes what the literal of this iteration sees;
// (b) the variable is assigned by a statement that follows the literal in the enclosing function. It returns a
// description of the offending assignment, or "".
func (x *fnv) frozenViolation(name string) string {
	lit := x.fi.Lit
	outer := x.fi.Outer
	if lit == nil || outer == nil || outer.Body == nil {
		return "not a function literal"
	}
	// the captured object
	var obj *types.Var
	ast.Inspect(lit.Body, func(nd ast.Node) bool {
		if id, ok := nd.(*ast.Ident); ok && id.Name == name && obj == nil {
			if o, ok := x.info.Uses[id].(*types.Var); ok && !o.IsField() && o.Pkg() != nil && o.Parent() != o.Pkg().Scope() &&
				!(o.Pos() >= lit.Pos() && o.Pos() <= lit.End()) {
				obj = o
			}
		}
		return true
	})
	if obj == nil {
		return "the literal does not capture a variable of that name"
	}
	// innermost loop of the enclosing function that contains the literal
	var loop ast.Node
	var loopBody *ast.BlockStmt
	ast.Inspect(outer.Body, func(nd ast.Node) bool {
		if nd == nil || nd.Pos() > lit.Pos() || nd.End() < lit.End() {
			return nd != nil && !(nd.Pos() > lit.End())
		}
		switch l := nd.(type) {
		case *ast.ForStmt:
			loop, loopBody = l, l.Body
		case *ast.RangeStmt:
			loop, loopBody = l, l.Body
		}
		return true
	})
	assigns := func(root ast.Node, from token.Pos) token.Pos {
		var hit token.Pos
		is := func(e ast.Expr) bool {
			id, ok := ast.Unparen(e).(*ast.Ident)
			return ok && (x.info.Uses[id] == obj || x.info.Defs[id] == obj)
		}
		ast.Inspect(root, func(nd ast.Node) bool {
			if hit.IsValid() || nd == nil {
				return false
			}
			if nd.Pos() >= lit.Pos() && nd.End() <= lit.End() {
				return false // the literal's own writes are the closure-frame check's business
			}
			switch st := nd.(type) {
			case *ast.AssignStmt:
				for _, l := range st.Lhs {
					if is(l) && st.Pos() >= from {
						hit = st.Pos()
					}
				}
			case *ast.IncDecStmt:
				if is(st.X) && st.Pos() >= from {
					hit = st.Pos()
				}
			case *ast.RangeStmt:
				if (st.Key != nil && is(st.Key)) || (st.Value != nil && is(st.Value)) {
					if st.Pos() >= from {
						hit = st.Pos()
					}
				}
			case *ast.UnaryExpr:
				if st.Op == token.AND && is(st.X) && st.Pos() >= from {
					hit = st.Pos() // address taken: may be written through the pointer
				}
			}
			return true
		})
		return hit
	}
	if loop != nil {
		declaredInBody := obj.Pos() >= loopBody.Pos() && obj.Pos() <= loopBody.End()
		perIteration := declaredInBody
		if !declaredInBody && obj.Pos() >= loop.Pos() && obj.Pos() < loopBody.Pos() {
			// a variable of the loop header: one per iteration only from go 1.22 on
			perIteration = x.p.GoAtLeast(1, 22)
		}
		if !perIteration {
			if p := assigns(loop, token.NoPos); p.IsValid() {
				return "assigned at " + x.posStr(p) + " by the loop that creates the literal (one variable for all iterations)"
			}
		}
	}
	if p := assigns(outer.Body, lit.End()); p.IsValid() {
		return "assigned at " + x.posStr(p) + " after the literal was created"
	}
	return ""
}

// capturedWrites lists (sorted) the variables declared outside the literal under verification that its body, or a
// literal nested in it, assigns.
func (x *fnv) capturedWrites() []string {
	lit := x.fi.Lit
	seen := map[string]bool{}
	note := func(e ast.Expr) {
		id, ok := ast.Unparen(e).(*ast.Ident)
		if !ok || id.Name == "_" {
			return
		}
		o, ok := x.info.ObjectOf(id).(*types.Var)
		if !ok || o.IsField() || o.Pkg() == nil || o.Parent() == o.Pkg().Scope() {
			return
		}
		if o.Pos() >= lit.Pos() && o.Pos() <= lit.End() {
			return // declared inside the literal
		}
		seen[o.Name()] = true
	}
	ast.Inspect(lit.Body, func(nd ast.Node) bool {
		switch nd := nd.(type) {
		case *ast.AssignStmt:
			if nd.Tok != token.DEFINE {
				for _, l := range nd.Lhs {
					note(l)
				}
			}
		case *ast.IncDecStmt:
			note(nd.X)
		case *ast.RangeStmt:
			if nd.Tok == token.ASSIGN {
				if nd.Key != nil {
					note(nd.Key)
				}
				if nd.Value != nil {
					note(nd.Value)
				}
			}
		}
		return true
	})
	var out []string
	for n := range seen {
		out = append(out, n)
	}
	sort.Strings(out)
	return out
}

// atMatches: an at-clause names the callee text exactly, or `*.method` for any receiver expression.
func atMatches(pattern, callee string) bool {
	if pattern == callee {
		return true
	}
	if strings.HasPrefix(pattern, "*.") {
		return strings.HasSuffix(callee, pattern[1:])
	}
	return false
}
