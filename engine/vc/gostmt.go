package vc

import (
	"fmt"
	"go/ast"
	"go/token"
	"go/types"
	"strings"
)

// gostmt.go: symbolic execution of statements; loops are cut at their invariants.

const maxLivePaths = 4

func (x *fnv) execBlock(s *State, list []ast.Stmt) flows {
	var out flows
	curs := []*State{s}
	for _, st := range list {
		if len(curs) == 0 {
			break
		}
		// loops are cut once, on the join of the paths reaching them; so are long fan-outs
		switch st.(type) {
		case *ast.ForStmt, *ast.RangeStmt, *ast.LabeledStmt, *ast.SwitchStmt, *ast.TypeSwitchStmt, *ast.SelectStmt:
			if len(curs) > 1 {
				curs = []*State{x.h.Merge(curs)}
			}
		}
		limit := maxLivePaths
		if x.fc != nil && x.fc.MaxPaths > 0 {
			limit = x.fc.MaxPaths
		}
		if len(curs) > limit {
			curs = []*State{x.h.Merge(curs)}
		}
		var nexts []*State
		for _, cur := range curs {
			if cur == nil {
				continue
			}
			f := x.execStmt(cur, st)
			out.absorb(f)
			nexts = append(nexts, f.paths()...)
		}
		curs = nexts
	}
	switch len(curs) {
	case 0:
	case 1:
		out.next = curs[0]
	default:
		out.nexts = curs
		out.next = x.h.Merge(curs)
	}
	return out
}

// takePanics moves panics raised during expression evaluation into the flows.
func (x *fnv) takePanics(f *flows) {
	if len(x.pendingPanics) > 0 {
		f.pan = append(f.pan, x.pendingPanics...)
		x.pendingPanics = nil
	}
}

func (x *fnv) execStmt(s *State, st ast.Stmt) (out flows) {
	defer x.takePanics(&out)
	c := x.c
	x.curPos = st.Pos()
	switch st := st.(type) {
	case *ast.EmptyStmt:
		return flows{next: s}
	case *ast.BlockStmt:
		return x.execBlock(s, st.List)
	case *ast.ExprStmt:
		x.evalMulti(s, st.X)
		return flows{next: liveOrNil(s)}
	case *ast.DeclStmt:
		gd, ok := st.Decl.(*ast.GenDecl)
		if !ok {
			panic(unsupported("declaration statement"))
		}
		if gd.Tok != token.VAR {
			return flows{next: s}
		}
		for _, sp := range gd.Specs {
			vs := sp.(*ast.ValueSpec)
			if len(vs.Values) == 0 {
				for _, nm := range vs.Names {
					if o := x.info.Defs[nm]; o != nil {
						x.declVar(s, o, x.h.zeroValue(o.Type()))
					}
				}
				continue
			}
			var vals []Value
			if len(vs.Values) == 1 && len(vs.Names) > 1 {
				vals = x.evalMulti(s, vs.Values[0])
			} else {
				for _, v := range vs.Values {
					vals = append(vals, x.eval(s, v))
				}
			}
			for i, nm := range vs.Names {
				if o := x.info.Defs[nm]; o != nil {
					x.declVar(s, o, vals[i])
				}
			}
		}
		return flows{next: s}
	case *ast.AssignStmt:
		x.execAssign(s, st)
		return flows{next: liveOrNil(s)}
	case *ast.IncDecStmt:
		l := x.lvalue(s, st.X)
		v := x.loadLoc(s, l)
		d := c.Int(1)
		var nv *Term
		if st.Tok == token.INC {
			nv = c.Add(v.Term, d)
		} else {
			nv = c.Sub(v.Term, d)
			if isUnsigned(v.T) {
				x.safe(s, "unsigned_underflow", c.Ge(nv, c.Int(0)), st.Pos())
			}
		}
		x.storeLoc(s, l, Value{T: v.T, Term: nv})
		return flows{next: s}
	case *ast.ReturnStmt:
		fr := x.frames[len(x.frames)-1]
		if len(st.Results) > 0 {
			var vals []Value
			if len(st.Results) == 1 && len(fr.results) > 1 {
				vals = x.evalMulti(s, st.Results[0])
			} else {
				for _, r := range st.Results {
					vals = append(vals, x.eval(s, r))
				}
			}
			if !isLive(s) {
				return flows{}
			}
			// evaluate all, then assign (results may be mentioned in the expressions)
			for i, rv := range fr.results {
				x.storeLoc(s, x.lvalOfVar(s, rv), x.coerce(s, vals[i], rv.Type()))
			}
		}
		return flows{ret: []*State{s}}
	case *ast.IfStmt:
		if st.Init != nil {
			f := x.execStmt(s, st.Init)
			out.absorb(f)
			if f.next == nil {
				return out
			}
			s = f.next
		}
		cond := x.eval(s, st.Cond)
		if !isLive(s) {
			return out
		}
		var ends []*State
		if !cond.Term.IsFalse() {
			s1 := s.Clone()
			s1.Assume(cond.Term)
			f := x.execBlock(s1, st.Body.List)
			out.absorb(f)
			ends = append(ends, f.paths()...)
		}
		if !cond.Term.IsTrue() {
			s2 := s.Clone()
			s2.Assume(c.Not(cond.Term))
			if st.Else != nil {
				f := x.execStmt(s2, st.Else)
				out.absorb(f)
				ends = append(ends, f.paths()...)
			} else {
				ends = append(ends, s2)
			}
		}
		var live []*State
		for _, e := range ends {
			if e != nil {
				live = append(live, e)
			}
		}
		out.next = x.h.Merge(ends)
		if len(live) > 1 {
			out.nexts = live
		}
		return out
	case *ast.ForStmt:
		return x.execFor(s, st, "")
	case *ast.RangeStmt:
		return x.execRange(s, st, "")
	case *ast.LabeledStmt:
		switch in := st.Stmt.(type) {
		case *ast.ForStmt:
			return x.execFor(s, in, st.Label.Name)
		case *ast.RangeStmt:
			return x.execRange(s, in, st.Label.Name)
		}
		return x.execStmt(s, st.Stmt)
	case *ast.BranchStmt:
		label := ""
		if st.Label != nil {
			label = st.Label.Name
		}
		switch st.Tok {
		case token.BREAK:
			return flows{brk: []jump{{label, s}}}
		case token.CONTINUE:
			return flows{cont: []jump{{label, s}}}
		}
		panic(unsupported("branch statement %s", st.Tok))
	case *ast.SwitchStmt:
		return x.execSwitch(s, st)
	case *ast.TypeSwitchStmt:
		return x.execTypeSwitch(s, st)
	case *ast.DeferStmt:
		d := deferred{call: st.Call}
		if lit, ok := ast.Unparen(st.Call.Fun).(*ast.FuncLit); ok {
			d.lit = lit
			for _, a := range st.Call.Args {
				d.args = append(d.args, x.eval(s, a))
			}
		} else {
			// evaluate receiver and arguments now, call later: keep it simple and re-evaluate at exit
			// only when the arguments are variables that are not reassigned (checked syntactically)
			d.args = nil
		}
		s.defers = append(s.defers, d)
		return flows{next: s}
	case *ast.GoStmt:
		x.execGo(s, st)
		return flows{next: liveOrNil(s)}
	case *ast.SendStmt:
		ch := x.eval(s, st.Chan)
		v := x.eval(s, st.Value)
		x.chanSend(s, ch, v, st.Pos())
		return flows{next: liveOrNil(s)}
	case *ast.SelectStmt:
		return x.execSelect(s, st)
	}
	panic(unsupported("statement %T", st))
}

func isLive(s *State) bool {
	if s == nil {
		return false
	}
	if n := len(s.pc); n > 0 && s.pc[n-1].IsFalse() {
		return false
	}
	return true
}

func liveOrNil(s *State) *State {
	if isLive(s) {
		return s
	}
	return nil
}

func (x *fnv) lvalOfVar(s *State, v *types.Var) loc {
	if x.boxedVar[v] {
		return x.derefLoc(v.Type(), s.vars[v].Term)
	}
	return loc{kind: locVar, T: v.Type(), obj: v}
}

func (x *fnv) execAssign(s *State, st *ast.AssignStmt) {
	c := x.c
	if st.Tok != token.ASSIGN && st.Tok != token.DEFINE {
		// op=
		l := x.lvalue(s, st.Lhs[0])
		cur := x.loadLoc(s, l)
		r := x.eval(s, st.Rhs[0])
		op := st.Tok.String()
		op = op[:len(op)-1]
		nv := x.binop(s, op, cur, r, cur.T, st.Pos())
		x.storeLoc(s, l, nv)
		return
	}
	var vals []Value
	if len(st.Rhs) == 1 && len(st.Lhs) > 1 {
		// tuple: call, comma-ok map index, type assertion, channel receive
		switch r := ast.Unparen(st.Rhs[0]).(type) {
		case *ast.IndexExpr:
			mt := x.typeOf(r.X)
			m := x.eval(s, r.X)
			k := x.coerce(s, x.eval(s, r.Index), mapType(mt).Key())
			v, ok := x.h.MapLookup(s, mt, m.Term, x.keyTerm(k))
			vals = []Value{v, {T: types.Typ[types.Bool], Term: ok}}
		case *ast.TypeAssertExpr:
			v, ok := x.evalTypeAssert(s, r, true)
			vals = []Value{v, {T: types.Typ[types.Bool], Term: ok}}
		case *ast.UnaryExpr:
			if r.Op != token.ARROW {
				panic(unsupported("tuple assignment from unary %s", r.Op))
			}
			ch := x.eval(s, r.X)
			v := x.chanRecv(s, ch, r.Pos(), types.ExprString(r.X))
			ok := c.Fresh("recv_ok", SBool)
			vals = []Value{v, {T: types.Typ[types.Bool], Term: ok}}
		default:
			vals = x.evalMulti(s, st.Rhs[0])
		}
	} else {
		for _, r := range st.Rhs {
			vals = append(vals, x.eval(s, r))
		}
	}
	if len(vals) != len(st.Lhs) {
		panic(unsupported("assignment arity mismatch"))
	}
	// resolve all targets first (Go evaluates index/pointer operands before assigning)
	locs := make([]loc, len(st.Lhs))
	isNew := make([]types.Object, len(st.Lhs))
	for i, l := range st.Lhs {
		if id, ok := l.(*ast.Ident); ok && st.Tok == token.DEFINE {
			if o := x.info.Defs[id]; o != nil {
				isNew[i] = o
				continue
			}
		}
		locs[i] = x.lvalue(s, l)
	}
	for i := range st.Lhs {
		if isNew[i] != nil {
			x.declVar(s, isNew[i], vals[i])
			continue
		}
		if locs[i].kind == locBlank {
			continue
		}
		v := x.coerce(s, vals[i], locs[i].T)
		if vals[i].Fn != nil {
			v.Fn = vals[i].Fn
		}
		x.storeLoc(s, locs[i], v)
	}
}

// ---- switch -------------------------------------------------------------------------------------------

func (x *fnv) execSwitch(s *State, st *ast.SwitchStmt) (out flows) {
	c := x.c
	if st.Init != nil {
		f := x.execStmt(s, st.Init)
		out.absorb(f)
		if f.next == nil {
			return out
		}
		s = f.next
	}
	var tag *Value
	if st.Tag != nil {
		v := x.eval(s, st.Tag)
		tag = &v
	}
	var ends []*State
	rest := s
	var defaultClause *ast.CaseClause
	for ci, cc := range st.Body.List {
		cl := cc.(*ast.CaseClause)
		if cl.List == nil {
			defaultClause = cl
			continue
		}
		var conds []*Term
		for _, e := range cl.List {
			v := x.eval(rest, e)
			if tag != nil {
				conds = append(conds, x.binop(rest, "==", *tag, v, types.Typ[types.Bool], e.Pos()).Term)
			} else {
				conds = append(conds, v.Term)
			}
		}
		cond := c.Or(conds...)
		s1 := rest.Clone()
		s1.Assume(cond)
		// a body ending in `fallthrough` continues with the body of the next clause (and so on)
		cur := s1
		for k := ci; k < len(st.Body.List) && cur != nil; k++ {
			body := st.Body.List[k].(*ast.CaseClause).Body
			falls := hasFallthrough(body)
			if falls {
				body = body[:len(body)-1]
			}
			f := x.execBlock(cur, body)
			out.absorb(flows{cont: f.cont, ret: f.ret, pan: f.pan})
			for _, b := range f.brk {
				if b.label == "" {
					ends = append(ends, b.s)
				} else {
					out.brk = append(out.brk, b)
				}
			}
			if !falls {
				ends = append(ends, f.next)
				break
			}
			cur = f.next
		}
		rest = rest.Clone()
		rest.Assume(c.Not(cond))
	}
	if defaultClause != nil {
		f := x.execBlock(rest, defaultClause.Body)
		ends = append(ends, f.next)
		out.absorb(flows{cont: f.cont, ret: f.ret, pan: f.pan})
		for _, b := range f.brk {
			if b.label == "" {
				ends = append(ends, b.s)
			} else {
				out.brk = append(out.brk, b)
			}
		}
	} else {
		ends = append(ends, rest)
	}
	out.next = x.h.Merge(ends)
	return out
}

func hasFallthrough(body []ast.Stmt) bool {
	if len(body) == 0 {
		return false
	}
	b, ok := body[len(body)-1].(*ast.BranchStmt)
	return ok && b.Tok == token.FALLTHROUGH
}

func (x *fnv) execTypeSwitch(s *State, st *ast.TypeSwitchStmt) (out flows) {
	c := x.c
	if st.Init != nil {
		f := x.execStmt(s, st.Init)
		out.absorb(f)
		if f.next == nil {
			return out
		}
		s = f.next
	}
	var ta *ast.TypeAssertExpr
	var bind *ast.Ident
	switch a := st.Assign.(type) {
	case *ast.ExprStmt:
		ta = ast.Unparen(a.X).(*ast.TypeAssertExpr)
	case *ast.AssignStmt:
		ta = ast.Unparen(a.Rhs[0]).(*ast.TypeAssertExpr)
		bind = a.Lhs[0].(*ast.Ident)
	}
	v := x.eval(s, ta.X)
	var ends []*State
	rest := s
	var defaultClause *ast.CaseClause
	handle := func(st0 *State, cl *ast.CaseClause, single types.Type, isNilCase bool) {
		if bind != nil {
			if o := x.info.Implicits[cl]; o != nil {
				var bv Value
				switch {
				case single != nil && kindOf(single) != kIface:
					bv = x.unbox(st0, v.Term, single)
					x.h.assumeTyped(st0, bv)
				default:
					bv = Value{T: o.Type(), Term: v.Term}
				}
				x.declVar(st0, o, bv)
			}
		}
		f := x.execBlock(st0, cl.Body)
		ends = append(ends, f.next)
		out.absorb(flows{cont: f.cont, ret: f.ret, pan: f.pan})
		for _, b := range f.brk {
			if b.label == "" {
				ends = append(ends, b.s)
			} else {
				out.brk = append(out.brk, b)
			}
		}
	}
	for _, cc := range st.Body.List {
		cl := cc.(*ast.CaseClause)
		if cl.List == nil {
			defaultClause = cl
			continue
		}
		var conds []*Term
		var single types.Type
		for _, e := range cl.List {
			if tv, ok := x.info.Types[e]; ok && tv.IsNil() {
				conds = append(conds, c.Eq(v.Term, c.Int(0)))
				continue
			}
			t := x.typeOf(e)
			conds = append(conds, x.isType(rest, v.Term, t))
			if len(cl.List) == 1 {
				single = t
			}
		}
		cond := c.Or(conds...)
		s1 := rest.Clone()
		s1.Assume(cond)
		handle(s1, cl, single, false)
		rest = rest.Clone()
		rest.Assume(c.Not(cond))
	}
	if defaultClause != nil {
		handle(rest, defaultClause, nil, false)
	} else {
		ends = append(ends, rest)
	}
	out.next = x.h.Merge(ends)
	return out
}

// ---- loops -------------------------------------------------------------------------------------------

// loopWrites computes the syntactic write set of a loop (body, condition, post statement).
func (x *fnv) loopWrites(nodes ...ast.Node) *writeSet {
	w := newWriteSet()
	for _, n := range nodes {
		if n == nil {
			continue
		}
		x.collectWrites(n, w)
	}
	return w
}

func (x *fnv) collectWrites(n ast.Node, w *writeSet) {
	ast.Inspect(n, func(nd ast.Node) bool {
		switch nd := nd.(type) {
		case *ast.AssignStmt:
			for _, l := range nd.Lhs {
				x.noteWriteTarget(l, w)
			}
		case *ast.IncDecStmt:
			x.noteWriteTarget(nd.X, w)
		case *ast.RangeStmt:
			if nd.Tok == token.ASSIGN {
				if nd.Key != nil {
					x.noteWriteTarget(nd.Key, w)
				}
				if nd.Value != nil {
					x.noteWriteTarget(nd.Value, w)
				}
			}
		case *ast.UnaryExpr:
			if nd.Op == token.ARROW && x.fc != nil {
				for _, rg := range x.fc.RecvGhosts {
					if rg.Chan == types.ExprString(nd.X) {
						if w.ghosts == nil {
							w.ghosts = map[string]bool{}
						}
						w.ghosts[rg.Name] = true
					}
				}
			}
			if nd.Op == token.AND {
				if cl, ok := ast.Unparen(nd.X).(*ast.CompositeLit); ok {
					// &T{...}: initialises the cells of a fresh object
					if w.allocs == nil {
						w.allocs = newWriteSet()
					}
					x.noteCellWrite(x.typeOf(cl), w.allocs)
				}
				// &x handed out: x may be written through the pointer
				if id, ok := ast.Unparen(nd.X).(*ast.Ident); ok {
					if o := x.info.ObjectOf(id); o != nil && x.boxedVar[o] {
						x.noteCellWrite(o.Type(), w)
					}
				}
			}
		case *ast.CallExpr:
			x.noteCallWrites(nd, w)
			// ghost variables updated by at-clauses attached to this call
			if x.fc != nil {
				name := types.ExprString(nd.Fun)
				for _, at := range x.fc.Ats {
					if at.Kind == "gadd" && atMatches(at.Callee, name) {
						w.regions["GHOST|"+at.Ghost] = true
					}
					if at.Kind == "ghost" && atMatches(at.Callee, name) {
						if w.ghosts == nil {
							w.ghosts = map[string]bool{}
						}
						w.ghosts[at.Ghost] = true
					}
				}
			}
		case *ast.FuncLit:
			// a literal defined in the loop is executed only if called; calls through variables are
			// callbacks (no framework writes), direct calls are inlined and scanned here
			return true
		case *ast.GoStmt, *ast.SendStmt:
			w.regions["GHOST|"] = true
		}
		return true
	})
}

// regSchema records the leaf regions below a prefix so that a havoc also covers regions that have
// not been touched yet.
func (x *fnv) regSchema(prefix string, arity int, t types.Type) {
	if _, ok := x.h.schema[prefix]; ok {
		return
	}
	var sch []regionSchema
	for _, l := range leavesOf(t) {
		sch = append(sch, regionSchema{prefix + l.Path, arity, l.Sort})
	}
	x.h.schema[prefix] = sch
}

func (x *fnv) regMapSchema(mt types.Type) {
	x.h.schema[mapDomRegion(mt)] = []regionSchema{{mapDomRegion(mt), 2, SBool}}
	x.h.schema[mapCardRegion(mt)] = []regionSchema{{mapCardRegion(mt), 1, SInt}}
	x.regSchema(mapValRegion(mt), 2, mapType(mt).Elem())
}

func (x *fnv) noteStructWrite(t types.Type, w *writeSet) {
	st := t.Underlying().(*types.Struct)
	for i := 0; i < st.NumFields(); i++ {
		pre := fieldRegion(t, st.Field(i).Name())
		x.regSchema(pre, 1, st.Field(i).Type())
		w.regions[pre] = true
	}
}

func (x *fnv) noteCellWrite(t types.Type, w *writeSet) {
	if kindOf(t) == kStruct {
		x.noteStructWrite(t, w)
		return
	}
	x.regSchema(cellRegion(t), 1, t)
	w.regions[cellRegion(t)] = true
}

func (x *fnv) noteWriteTarget(e ast.Expr, w *writeSet) {
	switch e := ast.Unparen(e).(type) {
	case *ast.Ident:
		if e.Name == "_" {
			return
		}
		o := x.info.ObjectOf(e)
		if o == nil {
			return
		}
		if x.boxedVar[o] {
			x.noteCellWrite(o.Type(), w)
			return
		}
		if l := x.varLoc(o); l.kind == locHeap {
			x.regSchema(l.pre, 1, o.Type())
			w.regions[l.pre] = true
			return
		}
		w.vars[o] = true
	case *ast.StarExpr:
		pt, ok := x.typeOf(e.X).Underlying().(*types.Pointer)
		if !ok {
			w.all = true
			return
		}
		x.noteCellWrite(pt.Elem(), w)
	case *ast.SelectorExpr:
		sel, ok := x.info.Selections[e]
		if !ok {
			if o, ok := x.info.ObjectOf(e.Sel).(*types.Var); ok {
				x.regSchema(x.globalLoc(o).pre, 1, o.Type())
				w.regions[x.globalLoc(o).pre] = true
			}
			return
		}
		// find the innermost pointer along the path; if none, the root variable is written
		t := x.typeOf(e.X)
		var owner types.Type
		var ownerField *types.Var
		viaPtr := false
		for _, i := range sel.Index() {
			if pt, ok := t.Underlying().(*types.Pointer); ok {
				t = pt.Elem()
				viaPtr = true
				owner, ownerField = t, nil
			}
			st := t.Underlying().(*types.Struct)
			f := st.Field(i)
			if viaPtr && ownerField == nil {
				ownerField = f
			}
			t = f.Type()
		}
		if viaPtr {
			pre := fieldRegion(owner, ownerField.Name())
			x.regSchema(pre, 1, ownerField.Type())
			w.regions[pre] = true
			return
		}
		x.noteWriteTarget(e.X, w)
	case *ast.IndexExpr:
		bt := x.typeOf(e.X)
		switch u := bt.Underlying().(type) {
		case *types.Slice:
			x.regSchema(sliceRegion(u.Elem()), 2, u.Elem())
			w.regions[sliceRegion(u.Elem())] = true
		case *types.Map:
			x.regMapSchema(bt)
			w.regions[mapDomRegion(bt)] = true
			w.regions[mapValRegion(bt)] = true
			w.regions[mapCardRegion(bt)] = true
		default:
			w.all = true
		}
	default:
		w.all = true
	}
}

func (x *fnv) noteCallWrites(call *ast.CallExpr, w *writeSet) {
	fun := ast.Unparen(call.Fun)
	if id, ok := fun.(*ast.Ident); ok {
		if b, ok := x.info.Uses[id].(*types.Builtin); ok {
			switch b.Name() {
			case "append":
				if st, ok := x.typeOf(call).Underlying().(*types.Slice); ok {
					x.regSchema(sliceRegion(st.Elem()), 2, st.Elem())
					w.regions[sliceRegion(st.Elem())] = true
				}
			case "copy":
				if st, ok := x.typeOf(call.Args[0]).Underlying().(*types.Slice); ok {
					x.regSchema(sliceRegion(st.Elem()), 2, st.Elem())
					w.regions[sliceRegion(st.Elem())] = true
				}
			case "delete":
				bt := x.typeOf(call.Args[0])
				x.regMapSchema(bt)
				w.regions[mapDomRegion(bt)] = true
				w.regions[mapCardRegion(bt)] = true
			}
			return
		}
	}
	switch f := fun.(type) {
	case *ast.IndexExpr:
		fun = f.X
	case *ast.IndexListExpr:
		fun = f.X
	}
	var fo *types.Func
	switch f := fun.(type) {
	case *ast.Ident:
		fo, _ = x.info.Uses[f].(*types.Func)
		if fo == nil {
			// call of a local variable holding a literal: the literal's body is scanned where it is defined
			if o := x.info.ObjectOf(f); o != nil {
				if lit := x.litOfVar[o]; lit != nil {
					x.collectWrites(lit.Body, w)
				}
			}
		}
	case *ast.SelectorExpr:
		if sel, ok := x.info.Selections[f]; ok {
			if sel.Kind() == types.MethodVal {
				fo, _ = sel.Obj().(*types.Func)
			}
		} else {
			fo, _ = x.info.Uses[f.Sel].(*types.Func)
		}
	case *ast.FuncLit:
		x.collectWrites(f.Body, w)
	}
	if fo == nil {
		return
	}
	var fc *FuncContract
	if fi := x.p.ByObj[fo.Origin()]; fi != nil {
		fc = x.p.Contract(fi)
	} else if rs := fo.Type().(*types.Signature).Recv(); rs != nil {
		if _, isIface := rs.Type().Underlying().(*types.Interface); isIface && fo.Pkg() != nil {
			fc = x.p.Contracts.Funcs[fo.Pkg().Path()+"::("+typeShort(rs.Type())+")."+fo.Name()]
		}
	}
	if m := x.modelWrites(fo); m != nil {
		for _, r := range m {
			w.regions[r] = true
		}
	}
	if strings.HasPrefix(fo.FullName(), "sync/atomic.") && len(call.Args) > 0 {
		if u, ok := ast.Unparen(call.Args[0]).(*ast.UnaryExpr); ok && u.Op == token.AND {
			x.noteWriteTarget(u.X, w)
		}
	}
	if fc == nil || fc.Pure {
		return
	}
	for _, r := range x.contractRegions(fc, fo) {
		w.regions[r] = true
	}
}

// havocLoop makes everything the loop may write arbitrary and returns the names of the regions.
// loopTargets evaluates `loop N: modifies ...` in the pre-loop state: the targets must be loop
// invariant, otherwise "cells outside the targets are unchanged since loop entry" is not inductive.
func (x *fnv) loopTargets(pre *State, lp *loopCtx) {
	lp.targets, lp.refined = nil, false
	if lp.lc == nil || len(lp.lc.Modifies) == 0 {
		return
	}
	lp.refined = true
	env := x.newSpecEnv(pre.Clone(), x.entry, x.pkg.PkgPath)
	x.bindLocals(env, lp)
	for _, cl := range lp.lc.Modifies {
		lp.targets = append(lp.targets, env.evalModTargets(cl.Expr)...)
	}
}

func (x *fnv) havocLoop(s *State, w *writeSet, lp *loopCtx, tag string) []string {
	c := x.c
	objs := make([]types.Object, 0, len(w.vars))
	for o := range w.vars {
		objs = append(objs, o)
	}
	sortObjs(objs)
	// allocation inside the loop: bump the allocation frontier first, so that the havocked
	// variables may refer to objects allocated by earlier iterations
	s.syncTops()
	top := c.Fresh("top", SInt)
	s.Assume(c.Ge(top, s.allocTop))
	headTop := s.allocTop
	s.allocTop = top
	for _, o := range objs {
		if _, ok := s.vars[o]; !ok {
			continue // declared inside the loop
		}
		s.vars[o] = x.h.freshValue(s, o.Type(), "loop_"+o.Name())
	}
	gnames := make([]string, 0, len(w.ghosts))
	for g := range w.ghosts {
		gnames = append(gnames, g)
	}
	sortStrings(gnames)
	for _, g := range gnames {
		if old, ok := s.ghost[g]; ok {
			s.ghost[g] = x.h.freshValue(s, old.T, "loop_ghost_"+g)
		}
	}
	var regions []string
	if w.all {
		panic(unsupported("loop with a write target the generator cannot name"))
	} else {
		for _, p := range w.sortedRegions() {
			regions = append(regions, x.regionsWithPrefix(s, p)...)
		}
	}
	if lp.refined && w.allocs != nil {
		// a refined loop that allocates: the cells of the objects allocated by earlier iterations are arbitrary at the
		// loop head in any case (only the invariants speak about them); havocking their regions as well gives them the
		// loop-head allocation frontier (references stored in them exist at the loop head)
		hasFresh := false
		for _, tg := range lp.targets {
			if tg.fresh {
				hasFresh = true
			}
		}
		if hasFresh {
			for _, p := range w.allocs.sortedRegions() {
				regions = append(regions, x.regionsWithPrefix(s, p)...)
			}
		}
	}
	sortStrings(regions)
	regions = dedup(regions)
	// refinement: `loop N: modifies ...` restricts what pre-existing cells may change
	targets := lp.targets
	for _, rn := range regions {
		m := s.mem[rn]
		if m == nil {
			continue
		}
		if !lp.refined {
			hm := c.Havoc(m, tag, func(ref, idx *Term) *Term { return c.False() })
			c.SetBaseTop(hm.RawOf(), top)
			s.mem[rn] = hm
			continue
		}
		var ts []modTarget
		for _, tg := range targets {
			if regionHasPrefix(rn, tg.prefix) {
				ts = append(ts, tg)
			}
		}
		hm := c.Havoc(m, tag, func(ref, idx *Term) *Term {
			keep := []*Term{c.Le(x.ownerOf(rn, ref), headTop)}
			for _, tg := range ts {
				keep = append(keep, c.Not(x.matchIn(tg, rn, ref, idx)))
			}
			return c.And(keep...)
		})
		c.SetBaseTop(hm.RawOf(), top)
		s.mem[rn] = hm
	}
	return regions
}

func dedup(a []string) []string {
	var out []string
	for i, s := range a {
		if i == 0 || s != a[i-1] {
			out = append(out, s)
		}
	}
	return out
}

func sortObjs(objs []types.Object) {
	for i := 1; i < len(objs); i++ {
		for j := i; j > 0 && (objs[j].Pos() < objs[j-1].Pos() || objs[j].Pos() == objs[j-1].Pos() && objs[j].Name() < objs[j-1].Name()); j-- {
			objs[j], objs[j-1] = objs[j-1], objs[j]
		}
	}
}

type loopCtx struct {
	ord      int
	lc       *LoopContract
	label    string
	role     map[string]Value // $i, $key, $val, $n
	roleVars map[string]types.Object
	seen     *Mem
	pos      token.Pos
	targets  []modTarget
	refined  bool
	preTop   *Term
	pre      *State // state just before the loop (for pre(e) in invariants)
}

// checkInvariants emits one obligation per invariant clause.
func (x *fnv) checkInvariants(s *State, lp *loopCtx, phase string, pos token.Pos) {
	if lp.lc == nil {
		return
	}
	env := x.newSpecEnv(s, x.entry, x.pkg.PkgPath)
	x.bindLocals(env, lp)
	for i, cl := range lp.lc.Invariants {
		label := cl.Label
		if label == "" {
			label = fmt.Sprintf("%d", i+1)
		}
		// an invariant whose assumption form is literally among the facts (nothing it reads has changed)
		// holds trivially; no query is needed
		env2 := x.newSpecEnv(s, x.entry, x.pkg.PkgPath)
		x.bindLocals(env2, lp)
		n0 := len(s.pc)
		ga := env2.assumption(cl.Expr)
		known := false
		for _, a := range s.pc[:n0] {
			if a == ga {
				known = true
				break
			}
		}
		if known {
			continue
		}
		g := env.goal(cl.Expr)
		x.oblige(s, fmt.Sprintf("inv.%d.%s", lp.ord, phase), label, g, pos, cl)
	}
}

func (x *fnv) assumeInvariants(s *State, lp *loopCtx) {
	if lp.lc == nil {
		return
	}
	env := x.newSpecEnv(s, x.entry, x.pkg.PkgPath)
	x.bindLocals(env, lp)
	for _, cl := range lp.lc.Invariants {
		s.Assume(env.assumption(cl.Expr))
	}
}

func (x *fnv) variant(s *State, lp *loopCtx) *Term {
	if lp.lc == nil || lp.lc.Decreases == nil {
		return nil
	}
	env := x.newSpecEnv(s, x.entry, x.pkg.PkgPath)
	x.bindLocals(env, lp)
	return env.eval(lp.lc.Decreases.Expr).Term
}

// loopFrame checks a refined loop write set: cells outside `loop N: modifies` are unchanged by one iteration.
func (x *fnv) loopFrame(head, end *State, lp *loopCtx, regions []string, pos token.Pos) {
	if !lp.refined {
		return
	}
	c := x.c
	targets := lp.targets
	for _, rn := range regions {
		mh, me := head.mem[rn], end.mem[rn]
		if mh == nil || me == nil || mh == me {
			continue
		}
		ref := c.Fresh("fr_ref", SInt)
		var idx *Term
		if mh.Arity == 2 {
			idx = c.Fresh("fr_idx", SInt)
		}
		pre := []*Term{c.Le(x.ownerOf(rn, ref), lp.preTop), c.Ge(ref, c.Int(0))}
		for _, tg := range targets {
			if regionHasPrefix(rn, tg.prefix) {
				pre = append(pre, c.Not(x.matchIn(tg, rn, ref, idx)))
			}
		}
		g := c.Implies(c.And(pre...), c.Eq(c.Read(me, ref, idx), c.Read(mh, ref, idx)))
		x.oblige(end, fmt.Sprintf("inv.%d.frame", lp.ord), sanitize(rn), g, pos, nil)
	}
}

func (x *fnv) execFor(s *State, st *ast.ForStmt, label string) (out flows) {
	c := x.c
	if st.Init != nil {
		f := x.execStmt(s, st.Init)
		out.absorb(f)
		if f.next == nil {
			return out
		}
		s = f.next
	}
	ord := x.loopOrd[st]
	lp := &loopCtx{ord: ord, label: label, role: map[string]Value{}, roleVars: map[string]types.Object{}, pos: st.Body.Lbrace + 1}
	if x.fc != nil {
		lp.lc = x.fc.Loops[ord]
	}
	if init, ok := st.Init.(*ast.AssignStmt); ok && len(init.Lhs) == 1 {
		if id, ok := init.Lhs[0].(*ast.Ident); ok {
			if o := x.info.ObjectOf(id); o != nil {
				lp.roleVars["$i"] = o
			}
		}
	}
	x.activeLoops[ord] = lp
	defer delete(x.activeLoops, ord)
	lp.pre = s.Clone()
	x.checkInvariants(s, lp, "init", st.Pos())
	w := x.loopWrites(st.Body, st.Cond, st.Post)
	head := s.Clone()
	x.loopTargets(s, lp)
	lp.preTop = s.allocTop
	regions := x.havocLoop(head, w, lp, fmt.Sprintf("loop%d", ord))
	if lp.lc != nil && lp.lc.Forget {
		// cut: everything learned between function entry and this loop is dropped; what the loop needs is
		// in its invariants (sound: assumptions only get weaker)
		head.pc = append([]*Term(nil), x.entry.pc...)
		head.typed = map[*Term]bool{}
		for k := range x.entry.typed {
			head.typed[k] = true
		}
		head.Assume(c.Ge(head.allocTop, lp.preTop))
		head.Assume(c.Ge(lp.preTop, x.entry.allocTop))
	}
	x.assumeInvariants(head, lp)
	v0 := x.variant(head, lp)
	var exit []*State
	body := head.Clone()
	if st.Cond != nil {
		cond := x.eval(body, st.Cond)
		ex := body.Clone()
		ex.Assume(c.Not(cond.Term))
		exit = append(exit, ex)
		body.Assume(cond.Term)
	}
	headSnap := body.Clone()
	savedLp := x.curLp
	x.curLp = lp
	f := x.execBlock(body, st.Body.List)
	x.curLp = savedLp
	out.absorb(flows{ret: f.ret, pan: f.pan})
	ends := f.paths()
	for _, j := range f.cont {
		if j.label == "" || j.label == label {
			ends = append(ends, j.s)
		} else {
			out.cont = append(out.cont, j)
		}
	}
	for _, j := range f.brk {
		if j.label == "" || j.label == label {
			exit = append(exit, j.s)
		} else {
			out.brk = append(out.brk, j)
		}
	}
	// each way of reaching the end of the body is checked on its own: smaller queries than one merged state
	for _, end := range ends {
		if end == nil {
			continue
		}
		if st.Post != nil {
			pf := x.execStmt(end, st.Post)
			end = pf.next
		}
		if end == nil {
			continue
		}
		x.checkInvariants(end, lp, "step", st.Body.Rbrace)
		x.loopFrame(headSnap, end, lp, regions, st.Body.Rbrace)
		if v0 != nil {
			v1 := x.variant(end, lp)
			x.oblige(end, fmt.Sprintf("dec.%d", ord), "", c.And(c.Ge(v0, c.Int(0)), c.Lt(v1, v0)), st.Pos(), lp.lc.Decreases)
		}
	}
	out.setNexts(x, exit)
	return out
}

func (x *fnv) execRange(s *State, st *ast.RangeStmt, label string) (out flows) {
	c := x.c
	ord := x.loopOrd[st]
	lp := &loopCtx{ord: ord, label: label, role: map[string]Value{}, roleVars: map[string]types.Object{}, pos: st.Body.Lbrace + 1}
	if x.fc != nil {
		lp.lc = x.fc.Loops[ord]
	}
	x.activeLoops[ord] = lp
	defer delete(x.activeLoops, ord)
	xt := x.typeOf(st.X)
	coll := x.eval(s, st.X)
	it := types.Typ[types.Int]
	keyObj, valObj := x.rangeVar(st.Key), x.rangeVar(st.Value)
	assignKV := func(b *State, k, v *Value) {
		if st.Tok == token.DEFINE {
			if keyObj != nil && k != nil {
				x.declVar(b, keyObj, *k)
			}
			if valObj != nil && v != nil {
				x.declVar(b, valObj, *v)
			}
			return
		}
		if st.Key != nil && k != nil {
			x.storeLoc(b, x.lvalue(b, st.Key), *k)
		}
		if st.Value != nil && v != nil {
			x.storeLoc(b, x.lvalue(b, st.Value), *v)
		}
	}
	w := x.loopWrites(st.Body)
	if st.Tok == token.ASSIGN {
		if st.Key != nil {
			x.noteWriteTarget(st.Key, w)
		}
		if st.Value != nil {
			x.noteWriteTarget(st.Value, w)
		}
	}
	switch kindOfRange(xt) {
	case "slice", "int":
		var n *Term
		if kindOfRange(xt) == "slice" {
			n = coll.Sl.Len
		} else {
			n = coll.Term
		}
		lp.role["$i"] = Value{T: it, Term: c.Int(0)}
		lp.role["$len"] = Value{T: it, Term: n}
		if kindOfRange(xt) == "slice" {
			lp.role["$range"] = coll // the ranged slice (evaluated once)
		}
		lp.pre = s.Clone()
		x.checkInvariants(s, lp, "init", st.Pos())
		head := s.Clone()
		x.loopTargets(s, lp)
		lp.preTop = s.allocTop
		regions := x.havocLoop(head, w, lp, fmt.Sprintf("loop%d", ord))
		i := c.Fresh("i", SInt)
		head.Assume(c.And(c.Le(c.Int(0), i), c.Le(i, n)))
		lp.role["$i"] = Value{T: it, Term: i}
		x.assumeInvariants(head, lp)
		ex := head.Clone()
		ex.Assume(c.Ge(i, n))
		exit := []*State{ex}
		body := head.Clone()
		body.Assume(c.Lt(i, n))
		kv := Value{T: it, Term: i}
		if kindOfRange(xt) == "slice" {
			et := xt.Underlying().(*types.Slice).Elem()
			if st.Value != nil {
				ev := x.h.ReadElem(body, et, coll.Sl.Arr, c.Add(coll.Sl.Off, i))
				assignKV(body, &kv, &ev)
			} else {
				assignKV(body, &kv, nil)
			}
		} else {
			kv.T = xt
			assignKV(body, &kv, nil)
		}
		headSnap := body.Clone()
		savedLp := x.curLp
		x.curLp = lp
		f := x.execBlock(body, st.Body.List)
		x.curLp = savedLp
		out.absorb(flows{ret: f.ret, pan: f.pan})
		ends := f.paths()
		for _, j := range f.cont {
			if j.label == "" || j.label == label {
				ends = append(ends, j.s)
			} else {
				out.cont = append(out.cont, j)
			}
		}
		for _, j := range f.brk {
			if j.label == "" || j.label == label {
				exit = append(exit, j.s)
			} else {
				out.brk = append(out.brk, j)
			}
		}
		lp.role["$i"] = Value{T: it, Term: c.Add(i, c.Int(1))}
		for _, end := range ends {
			if end == nil {
				continue
			}
			x.checkInvariants(end, lp, "step", st.Body.Rbrace)
			x.loopFrame(headSnap, end, lp, regions, st.Body.Rbrace)
		}
		out.setNexts(x, exit)
		return out
	case "map":
		return x.execRangeMap(s, st, label, lp, coll, xt, w, assignKV)
	}
	panic(unsupported("range over %s", typeStr(xt)))
}

func kindOfRange(t types.Type) string {
	switch u := t.Underlying().(type) {
	case *types.Slice:
		return "slice"
	case *types.Map:
		return "map"
	case *types.Basic:
		if u.Info()&types.IsInteger != 0 {
			return "int"
		}
	}
	return "other"
}

func (x *fnv) rangeVar(e ast.Expr) types.Object {
	if id, ok := e.(*ast.Ident); ok && id.Name != "_" {
		return x.info.Defs[id]
	}
	return nil
}

// execRangeMap executes `for k, v := range m` for an arbitrary iteration order (DESIGN 2.5): the
// body is verified for an arbitrary not-yet-visited key under the invariant.
func (x *fnv) execRangeMap(s *State, st *ast.RangeStmt, label string, lp *loopCtx, coll Value, mt types.Type, w *writeSet,
	assignKV func(b *State, k, v *Value)) (out flows) {
	c := x.c
	ord := lp.ord
	it := types.Typ[types.Int]
	m := coll.Term
	kt := mapType(mt).Key()
	// domain at loop entry (the body may not insert or delete: obligations in mapStore/delete)
	domName := mapDomRegion(mt)
	dom0 := x.h.region(s, domName, 2, SBool)
	card0 := x.h.MapCard(s, mt, m)
	inDom0 := func(k *Term) *Term { return c.And(c.Ne(m, c.Int(0)), c.Read(dom0, m, k)) }
	seenName := fmt.Sprintf("SEEN|%s|%d", x.fi.Key, ord)
	// seen sets are functions key -> bool; ref plays the role of the key
	lp.seen = c.ConstMem(seenName, 1, c.False())
	lp.role["$n"] = Value{T: it, Term: c.Int(0)}
	lp.pre = s.Clone()
	x.checkInvariants(s, lp, "init", st.Pos())

	head := s.Clone()
	x.loopTargets(s, lp)
	lp.preTop = s.allocTop
	regions := x.havocLoop(head, w, lp, fmt.Sprintf("loop%d", ord))
	seenH := c.NewBaseMem(seenName, 1, SBool, "head")
	n := c.Fresh("n", SInt)
	head.Assume(c.And(c.Le(c.Int(0), n), c.Le(n, card0)))
	// seen ⊆ dom0
	bk := c.BVar("k", SInt)
	head.Assume(c.Forall([]*Term{bk}, c.Implies(c.Read(seenH, bk, nil), inDom0(bk))))
	lp.seen = seenH
	lp.role["$n"] = Value{T: it, Term: n}
	x.assumeInvariants(head, lp)

	// exit: every key visited
	ex := head.Clone()
	ex.Assume(c.Eq(n, card0))
	bk2 := c.BVar("k", SInt)
	ex.Assume(c.Forall([]*Term{bk2}, c.Eq(c.Read(seenH, bk2, nil), inDom0(bk2))))
	exit := []*State{ex}

	body := head.Clone()
	body.Assume(c.Lt(n, card0))
	k := c.Fresh("key", SInt)
	kval := Value{T: kt, Term: k}
	if sortOf(kt) == SBool {
		panic(unsupported("range over map with bool keys"))
	}
	x.h.assumeTyped(body, kval)
	body.Assume(c.And(inDom0(k), c.Not(c.Read(seenH, k, nil))))
	lp.role["$key"] = kval
	var vv Value
	if st.Value != nil {
		vv = x.h.MapGet(body, mt, m, k)
		lp.role["$val"] = vv
		assignKV(body, &kval, &vv)
	} else {
		assignKV(body, &kval, nil)
	}
	x.rangeMap = append(x.rangeMap, rangedMap{mt, m})
	headSnap := body.Clone()
	savedLp := x.curLp
	x.curLp = lp
	f := x.execBlock(body, st.Body.List)
	x.curLp = savedLp
	x.rangeMap = x.rangeMap[:len(x.rangeMap)-1]
	out.absorb(flows{ret: f.ret, pan: f.pan})
	ends := []*State{f.next}
	for _, j := range f.cont {
		if j.label == "" || j.label == label {
			ends = append(ends, j.s)
		} else {
			out.cont = append(out.cont, j)
		}
	}
	for _, j := range f.brk {
		if j.label == "" || j.label == label {
			exit = append(exit, j.s)
		} else {
			out.brk = append(out.brk, j)
		}
	}
	lp.seen = c.Store(seenH, k, nil, c.True())
	lp.role["$n"] = Value{T: it, Term: c.Add(n, c.Int(1))}
	delete(lp.role, "$key")
	delete(lp.role, "$val")
	for _, end := range ends {
		if end == nil {
			continue
		}
		x.checkInvariants(end, lp, "step", st.Body.Rbrace)
		x.loopFrame(headSnap, end, lp, regions, st.Body.Rbrace)
	}
	// after the loop role variables refer to the exit state
	lp.seen = seenH
	out.setNexts(x, exit)
	return out
}

// ---- go / channels / select ------------------------------------------------------------------------------

func (x *fnv) execGo(s *State, st *ast.GoStmt) {
	// A forked call: its precondition must hold now; its effects (modifies) may happen at any later
	// time, so they are havocked now; its postcondition is not assumed (no join).
	x.assumeNote("go statements: callee effects are havocked at the fork; no interleaving is enumerated")
	call := st.Call
	if lit, ok := ast.Unparen(call.Fun).(*ast.FuncLit); ok {
		for _, a := range call.Args {
			x.eval(s, a)
		}
		w := newWriteSet()
		x.collectWrites(lit.Body, w)
		for _, p := range w.sortedRegions() {
			for _, rn := range x.regionsWithPrefix(s, p) {
				s.mem[rn] = x.c.Havoc(s.mem[rn], "go", func(ref, idx *Term) *Term { return x.c.False() })
			}
		}
		return
	}
	// ordinary call: evaluate through the contract but discard the results
	saved := s.Clone()
	_ = saved
	x.evalCall(s, call)
}

func (x *fnv) chanRecv(s *State, ch Value, pos token.Pos, text string) Value {
	et := ch.T.Underlying().(*types.Chan).Elem()
	x.assumeNote("channel operations are ghost: a receive yields an arbitrary value (channel axioms trusted)")
	v := x.h.freshValue(s, et, "recv")
	if x.fc != nil {
		if cl := x.fc.Recvs[text]; cl != nil {
			env := x.newSpecEnv(s, x.entry, x.pkg.PkgPath)
			x.bindLocals(env, nil)
			env.vars["value"] = v
			s.Assume(env.assumption(cl.Expr))
			x.assumeNote("channel invariant assumed for values received from " + text + ": " + cl.Src)
		}
		for _, rg := range x.fc.RecvGhosts {
			if rg.Chan != text {
				continue
			}
			old, ok := s.ghost[rg.Name]
			if !ok {
				panic(specFail{"undeclared ghost variable " + rg.Name})
			}
			env := x.newSpecEnv(s, x.entry, x.pkg.PkgPath)
			x.bindLocals(env, nil)
			env.vars["value"] = v
			s.ghost[rg.Name] = x.coerce(s, env.eval(rg.Clause.Expr), old.T)
		}
	}
	return v
}

func (x *fnv) chanSend(s *State, ch, v Value, pos token.Pos) {
	x.assumeNote("channel operations are ghost: a send has no effect on the symbolic state (channel axioms trusted)")
}

func (x *fnv) execSelect(s *State, st *ast.SelectStmt) (out flows) {
	// nondeterministic choice among the cases (enabledness is not modelled)
	var ends []*State
	n := len(st.Body.List)
	pick := x.c.Fresh("select", SInt)
	for i, cc := range st.Body.List {
		cl := cc.(*ast.CommClause)
		b := s.Clone()
		if n > 1 {
			b.Assume(x.c.Eq(pick, x.c.Int(int64(i))))
		}
		if cl.Comm != nil {
			f := x.execStmt(b, cl.Comm)
			out.absorb(f)
			if f.next == nil {
				continue
			}
			b = f.next
		}
		f := x.execBlock(b, cl.Body)
		out.absorb(flows{cont: f.cont, ret: f.ret, pan: f.pan})
		ends = append(ends, f.next)
		for _, j := range f.brk {
			if j.label == "" {
				ends = append(ends, j.s)
			} else {
				out.brk = append(out.brk, j)
			}
		}
	}
	out.next = x.h.Merge(ends)
	return out
}

// setNexts records the normal continuations of a statement both merged and as separate paths.
func (f *flows) setNexts(x *fnv, states []*State) {
	var live []*State
	for _, s := range states {
		if s != nil {
			live = append(live, s)
		}
	}
	f.next = x.h.Merge(live)
	if len(live) > 1 {
		f.nexts = live
	}
}
