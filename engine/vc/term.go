// Package vc is the verification-condition generator ("govc") for the eino contracts.
//
// term.go: hash-consed first-order terms over the two sorts Int and Bool, printed as SMT-LIB 2.
package vc

import (
	"fmt"
	"os"
	"sort"
	"strconv"
	"strings"
	"sync"
	"sync/atomic"
)

type Sort int

const (
	SInt Sort = iota
	SBool
)

func (s Sort) String() string {
	if s == SBool {
		return "Bool"
	}
	return "Int"
}

// Term is an immutable, interned term. Pointer equality == structural equality.
type Term struct {
	Op   string // "lit", "true", "false", "var" (free constant), "bvar", "app" (UF), or an SMT operator
	Name string // for var / bvar / app / lit (decimal)
	Args []*Term
	Sort Sort
	// for quantifiers: Op "forall"/"exists", Bound holds the bound variables, Args[0] the body
	Bound []*Term
	key   string
	id    int

	// memoised by HasBVar / freeBVars. Obligations of one function share their terms and are rendered concurrently:
	// the value is computed first and published last (atomically), never the other way round
	hasFree  int32
	freeDone int32
	free     map[*Term]bool
}

// FuncDecl is an uninterpreted function / constant declaration.
type FuncDecl struct {
	Name string
	Args []Sort
	Res  Sort
}

// Ctx owns the intern table and the declarations.
type Ctx struct {
	tab    map[string]*Term
	decls  map[string]*FuncDecl
	nfresh int
	// Defs are definitional equalities for named intermediate terms (always-true facts about fresh constants).
	Defs []*Term
	// Distinct groups: names of Int constants that are pairwise distinct (string literals, type ids).
	distinct map[string][]string
	// Facts are ground facts (e.g. impl_I(tid_T)) added to a query when all their symbols occur in it.
	Facts    []*Term
	factKey  map[string]bool
	BaseTop  map[string]*Term
	symCache map[*Term]map[string]bool
	mu       sync.Mutex
	// OnlyDefs, when non-nil, restricts the definitional facts printed by Script (used for sliced queries)
	OnlyDefs map[*Term]bool
}

// AddFact registers a ground fact once.
func (c *Ctx) AddFact(key string, t *Term) {
	if c.factKey == nil {
		c.factKey = map[string]bool{}
	}
	if c.factKey[key] {
		return
	}
	c.factKey[key] = true
	c.Facts = append(c.Facts, t)
}

func termSyms(t *Term, out map[string]bool) {
	if t.Op == "var" || t.Op == "app" {
		out[t.Name] = true
	}
	for _, a := range t.Args {
		termSyms(a, out)
	}
}

func NewCtx() *Ctx {
	return &Ctx{tab: map[string]*Term{}, decls: map[string]*FuncDecl{}, distinct: map[string][]string{}}
}

func (c *Ctx) intern(t *Term) *Term {
	var sb strings.Builder
	sb.WriteString(t.Op)
	sb.WriteByte('|')
	sb.WriteString(t.Name)
	for _, b := range t.Bound {
		sb.WriteByte('^')
		sb.WriteString(strconv.Itoa(b.id))
	}
	for _, a := range t.Args {
		sb.WriteByte(',')
		sb.WriteString(strconv.Itoa(a.id))
	}
	k := sb.String()
	if o, ok := c.tab[k]; ok {
		return o
	}
	t.key = k
	t.id = len(c.tab) + 1
	c.tab[k] = t
	return t
}

func (c *Ctx) True() *Term  { return c.intern(&Term{Op: "true", Sort: SBool}) }
func (c *Ctx) False() *Term { return c.intern(&Term{Op: "false", Sort: SBool}) }
func (c *Ctx) Bool(b bool) *Term {
	if b {
		return c.True()
	}
	return c.False()
}
func (c *Ctx) Int(n int64) *Term {
	return c.intern(&Term{Op: "lit", Name: strconv.FormatInt(n, 10), Sort: SInt})
}
func (c *Ctx) IntStr(s string) *Term {
	return c.intern(&Term{Op: "lit", Name: s, Sort: SInt})
}

func sanitize(s string) string {
	var sb strings.Builder
	for _, r := range s {
		switch {
		case r >= 'a' && r <= 'z', r >= 'A' && r <= 'Z', r >= '0' && r <= '9', r == '_', r == '.', r == '!', r == '$':
			sb.WriteRune(r)
		default:
			sb.WriteByte('_')
		}
	}
	return sb.String()
}

// Declare registers an uninterpreted function (or constant when args is empty).
func (c *Ctx) Declare(name string, args []Sort, res Sort) *FuncDecl {
	if d, ok := c.decls[name]; ok {
		return d
	}
	d := &FuncDecl{Name: name, Args: args, Res: res}
	c.decls[name] = d
	return d
}

// Const returns the free constant with the given (already unique) name.
func (c *Ctx) Const(name string, s Sort) *Term {
	name = sanitize(name)
	c.Declare(name, nil, s)
	return c.intern(&Term{Op: "var", Name: name, Sort: s})
}

// Fresh returns a new constant whose name starts with hint.
func (c *Ctx) Fresh(hint string, s Sort) *Term {
	c.nfresh++
	return c.Const(fmt.Sprintf("%s!%d", sanitize(hint), c.nfresh), s)
}

func (c *Ctx) FreshName(hint string) string {
	c.nfresh++
	return fmt.Sprintf("%s!%d", sanitize(hint), c.nfresh)
}

// BVar returns a bound variable (used inside quantifiers only).
func (c *Ctx) BVar(hint string, s Sort) *Term {
	c.nfresh++
	return c.intern(&Term{Op: "bvar", Name: fmt.Sprintf("%s?%d", sanitize(hint), c.nfresh), Sort: s})
}

// App applies an uninterpreted function.
func (c *Ctx) App(name string, res Sort, args ...*Term) *Term {
	name = sanitize(name)
	as := make([]Sort, len(args))
	for i, a := range args {
		as[i] = a.Sort
	}
	d := c.Declare(name, as, res)
	if len(d.Args) != len(args) {
		panic(fmt.Sprintf("arity mismatch for %s", name))
	}
	if len(args) == 0 {
		return c.Const(name, res)
	}
	return c.intern(&Term{Op: "app", Name: name, Args: args, Sort: res})
}

// DistinctConst returns a constant belonging to a group of pairwise distinct constants.
func (c *Ctx) DistinctConst(group, name string) *Term {
	name = sanitize(name)
	found := false
	for _, n := range c.distinct[group] {
		if n == name {
			found = true
			break
		}
	}
	if !found {
		c.distinct[group] = append(c.distinct[group], name)
	}
	return c.Const(name, SInt)
}

func (t *Term) IsLit() bool   { return t.Op == "lit" }
func (t *Term) IsTrue() bool  { return t.Op == "true" }
func (t *Term) IsFalse() bool { return t.Op == "false" }
func (t *Term) LitVal() int64 {
	n, _ := strconv.ParseInt(t.Name, 10, 64)
	return n
}

func (c *Ctx) mk(op string, s Sort, args ...*Term) *Term {
	return c.intern(&Term{Op: op, Args: args, Sort: s})
}

func (c *Ctx) Not(a *Term) *Term {
	if a.Sort != SBool {
		panic("Not on non-bool: " + a.String())
	}
	switch {
	case a.IsTrue():
		return c.False()
	case a.IsFalse():
		return c.True()
	case a.Op == "not":
		return a.Args[0]
	}
	return c.mk("not", SBool, a)
}

func (c *Ctx) And(as ...*Term) *Term {
	var out []*Term
	seen := map[*Term]bool{}
	for _, a := range as {
		if a == nil {
			continue
		}
		if a.Sort != SBool {
			panic("And on non-bool: " + a.String())
		}
		if a.IsTrue() {
			continue
		}
		if a.IsFalse() {
			return c.False()
		}
		if a.Op == "and" {
			for _, b := range a.Args {
				if !seen[b] {
					seen[b] = true
					out = append(out, b)
				}
			}
			continue
		}
		if !seen[a] {
			seen[a] = true
			out = append(out, a)
		}
	}
	for _, a := range out {
		if seen[c.Not(a)] {
			return c.False()
		}
	}
	switch len(out) {
	case 0:
		return c.True()
	case 1:
		return out[0]
	}
	return c.mk("and", SBool, out...)
}

func (c *Ctx) Or(as ...*Term) *Term {
	var out []*Term
	seen := map[*Term]bool{}
	for _, a := range as {
		if a == nil {
			continue
		}
		if a.Sort != SBool {
			panic("Or on non-bool: " + a.String())
		}
		if a.IsFalse() {
			continue
		}
		if a.IsTrue() {
			return c.True()
		}
		if a.Op == "or" {
			for _, b := range a.Args {
				if !seen[b] {
					seen[b] = true
					out = append(out, b)
				}
			}
			continue
		}
		if !seen[a] {
			seen[a] = true
			out = append(out, a)
		}
	}
	for _, a := range out {
		if seen[c.Not(a)] {
			return c.True()
		}
	}
	switch len(out) {
	case 0:
		return c.False()
	case 1:
		return out[0]
	}
	return c.mk("or", SBool, out...)
}

func (c *Ctx) Implies(a, b *Term) *Term {
	if a.IsTrue() {
		return b
	}
	if a.IsFalse() || b.IsTrue() {
		return c.True()
	}
	if b.IsFalse() {
		return c.Not(a)
	}
	return c.mk("=>", SBool, a, b)
}

func (c *Ctx) Iff(a, b *Term) *Term { return c.Eq(a, b) }

func (c *Ctx) Eq(a, b *Term) *Term {
	if a.Sort != b.Sort {
		panic(fmt.Sprintf("Eq sort mismatch: %s vs %s", a, b))
	}
	if a == b {
		return c.True()
	}
	if a.IsLit() && b.IsLit() {
		return c.Bool(a.Name == b.Name)
	}
	if a.Sort == SBool {
		if a.IsTrue() {
			return b
		}
		if b.IsTrue() {
			return a
		}
		if a.IsFalse() {
			return c.Not(b)
		}
		if b.IsFalse() {
			return c.Not(a)
		}
	}
	if a.id > b.id {
		a, b = b, a
	}
	return c.mk("=", SBool, a, b)
}

func (c *Ctx) Ne(a, b *Term) *Term { return c.Not(c.Eq(a, b)) }

func (c *Ctx) Ite(cond, a, b *Term) *Term {
	if a.Sort != b.Sort {
		panic(fmt.Sprintf("Ite sort mismatch: %s vs %s", a, b))
	}
	if cond.IsTrue() {
		return a
	}
	if cond.IsFalse() {
		return b
	}
	if a == b {
		return a
	}
	if a.Sort == SBool {
		if a.IsTrue() && b.IsFalse() {
			return cond
		}
		if a.IsFalse() && b.IsTrue() {
			return c.Not(cond)
		}
	}
	return c.mk("ite", a.Sort, cond, a, b)
}

func (c *Ctx) cmp(op string, a, b *Term) *Term {
	if a.IsLit() && b.IsLit() {
		x, y := a.LitVal(), b.LitVal()
		switch op {
		case "<":
			return c.Bool(x < y)
		case "<=":
			return c.Bool(x <= y)
		}
	}
	if a == b {
		return c.Bool(op == "<=")
	}
	return c.mk(op, SBool, a, b)
}
func (c *Ctx) Lt(a, b *Term) *Term { return c.cmp("<", a, b) }
func (c *Ctx) Le(a, b *Term) *Term { return c.cmp("<=", a, b) }
func (c *Ctx) Gt(a, b *Term) *Term { return c.cmp("<", b, a) }
func (c *Ctx) Ge(a, b *Term) *Term { return c.cmp("<=", b, a) }

func (c *Ctx) Add(a, b *Term) *Term {
	if a.IsLit() && b.IsLit() {
		return c.Int(a.LitVal() + b.LitVal())
	}
	if a.IsLit() && a.LitVal() == 0 {
		return b
	}
	if b.IsLit() && b.LitVal() == 0 {
		return a
	}
	// (x + k1) + k2
	if b.IsLit() && a.Op == "+" && len(a.Args) == 2 && a.Args[1].IsLit() {
		return c.Add(a.Args[0], c.Int(a.Args[1].LitVal()+b.LitVal()))
	}
	if b.IsLit() && a.Op == "-" && len(a.Args) == 2 && a.Args[1].IsLit() {
		return c.Add(a.Args[0], c.Int(b.LitVal()-a.Args[1].LitVal()))
	}
	if a.IsLit() && !b.IsLit() {
		a, b = b, a
	}
	if b.IsLit() && b.LitVal() < 0 {
		return c.mk("-", SInt, a, c.Int(-b.LitVal()))
	}
	return c.mk("+", SInt, a, b)
}
func (c *Ctx) Sub(a, b *Term) *Term {
	if a.IsLit() && b.IsLit() {
		return c.Int(a.LitVal() - b.LitVal())
	}
	if b.IsLit() {
		return c.Add(a, c.Int(-b.LitVal()))
	}
	if a == b {
		return c.Int(0)
	}
	return c.mk("-", SInt, a, b)
}
func (c *Ctx) Mul(a, b *Term) *Term {
	if a.IsLit() && b.IsLit() {
		return c.Int(a.LitVal() * b.LitVal())
	}
	if a.IsLit() && a.LitVal() == 1 {
		return b
	}
	if b.IsLit() && b.LitVal() == 1 {
		return a
	}
	return c.mk("*", SInt, a, b)
}
func (c *Ctx) Div(a, b *Term) *Term { return c.mk("div", SInt, a, b) }
func (c *Ctx) Mod(a, b *Term) *Term { return c.mk("mod", SInt, a, b) }
func (c *Ctx) Neg(a *Term) *Term    { return c.Sub(c.Int(0), a) }

func (c *Ctx) Forall(bound []*Term, body *Term) *Term {
	if body.IsTrue() || body.IsFalse() || len(bound) == 0 {
		return body
	}
	return c.intern(&Term{Op: "forall", Bound: bound, Args: []*Term{body}, Sort: SBool})
}
func (c *Ctx) Exists(bound []*Term, body *Term) *Term {
	if body.IsTrue() || body.IsFalse() || len(bound) == 0 {
		return body
	}
	return c.intern(&Term{Op: "exists", Bound: bound, Args: []*Term{body}, Sort: SBool})
}

// Name introduces a fresh constant equal to t (keeps later terms small).
func (c *Ctx) NameTerm(hint string, t *Term) *Term {
	if t.Op == "var" || t.Op == "lit" || t.Op == "true" || t.Op == "false" || t.Op == "bvar" {
		return t
	}
	if t.HasBVar() {
		return t
	}
	k := c.Fresh(hint, t.Sort)
	c.Defs = append(c.Defs, c.Eq(k, t))
	return k
}

// HasBVar reports whether t mentions a bound variable that is free in t (closed quantified
// sub-formulas do not count).
func (t *Term) HasBVar() bool {
	if v := atomic.LoadInt32(&t.hasFree); v != 0 {
		return v == 2
	}
	r := int32(1)
	if len(t.freeBVars()) > 0 {
		r = 2
	}
	atomic.StoreInt32(&t.hasFree, r)
	return r == 2
}

// freeBVars returns the bound variables occurring free in t (memoised).
func (t *Term) freeBVars() map[*Term]bool {
	if atomic.LoadInt32(&t.freeDone) == 1 {
		return t.free
	}
	var res map[*Term]bool
	switch {
	case t.Op == "bvar":
		res = map[*Term]bool{t: true}
	case len(t.Args) == 0:
		res = nil
	default:
		var acc map[*Term]bool
		for _, a := range t.Args {
			fa := a.freeBVars()
			if len(fa) == 0 {
				continue
			}
			if acc == nil {
				acc = map[*Term]bool{}
			}
			for v := range fa {
				acc[v] = true
			}
		}
		if len(t.Bound) > 0 && acc != nil {
			for _, b := range t.Bound {
				delete(acc, b)
			}
		}
		if len(acc) > 0 {
			res = acc
		}
	}
	termMemoMu.Lock()
	if atomic.LoadInt32(&t.freeDone) == 0 {
		t.free = res
		atomic.StoreInt32(&t.freeDone, 1)
	}
	termMemoMu.Unlock()
	return t.free
}

var termMemoMu sync.Mutex

// HasQuant reports whether the term contains a quantifier.
func (t *Term) HasQuant() bool {
	if t.Op == "forall" || t.Op == "exists" {
		return true
	}
	for _, a := range t.Args {
		if a.HasQuant() {
			return true
		}
	}
	return false
}

// Size returns the number of nodes (tree size, capped).
func (t *Term) Size() int {
	n := 1
	for _, a := range t.Args {
		n += a.Size()
		if n > 1<<20 {
			return n
		}
	}
	return n
}

// Subst replaces bound/free variables.
func (c *Ctx) Subst(t *Term, m map[*Term]*Term) *Term {
	if len(m) == 0 {
		return t
	}
	memo := map[*Term]*Term{}
	var rec func(t *Term) *Term
	rec = func(t *Term) *Term {
		if r, ok := m[t]; ok {
			return r
		}
		if len(t.Args) == 0 {
			return t
		}
		if r, ok := memo[t]; ok {
			return r
		}
		args := make([]*Term, len(t.Args))
		changed := false
		for i, a := range t.Args {
			args[i] = rec(a)
			if args[i] != a {
				changed = true
			}
		}
		r := t
		if changed {
			r = c.rebuild(t, args)
		}
		memo[t] = r
		return r
	}
	return rec(t)
}

func (c *Ctx) rebuild(t *Term, args []*Term) *Term {
	switch t.Op {
	case "not":
		return c.Not(args[0])
	case "and":
		return c.And(args...)
	case "or":
		return c.Or(args...)
	case "=>":
		return c.Implies(args[0], args[1])
	case "=":
		return c.Eq(args[0], args[1])
	case "ite":
		return c.Ite(args[0], args[1], args[2])
	case "<":
		return c.Lt(args[0], args[1])
	case "<=":
		return c.Le(args[0], args[1])
	case "+":
		return c.Add(args[0], args[1])
	case "-":
		return c.Sub(args[0], args[1])
	case "*":
		return c.Mul(args[0], args[1])
	case "forall":
		return c.Forall(t.Bound, args[0])
	case "exists":
		return c.Exists(t.Bound, args[0])
	}
	return c.intern(&Term{Op: t.Op, Name: t.Name, Args: args, Sort: t.Sort, Bound: t.Bound})
}

func (t *Term) String() string {
	var sb strings.Builder
	t.write(&sb)
	return sb.String()
}

func (t *Term) write(sb *strings.Builder) {
	switch t.Op {
	case "lit":
		if strings.HasPrefix(t.Name, "-") {
			sb.WriteString("(- " + t.Name[1:] + ")")
		} else {
			sb.WriteString(t.Name)
		}
	case "true", "false":
		sb.WriteString(t.Op)
	case "var", "bvar":
		sb.WriteString(quoteSym(t.Name))
	case "app":
		sb.WriteByte('(')
		sb.WriteString(quoteSym(t.Name))
		for _, a := range t.Args {
			sb.WriteByte(' ')
			a.write(sb)
		}
		sb.WriteByte(')')
	case "forall", "exists":
		sb.WriteString("(" + t.Op + " (")
		for i, b := range t.Bound {
			if i > 0 {
				sb.WriteByte(' ')
			}
			sb.WriteString("(" + quoteSym(b.Name) + " " + b.Sort.String() + ")")
		}
		sb.WriteString(") ")
		t.Args[0].write(sb)
		sb.WriteByte(')')
	default:
		sb.WriteByte('(')
		sb.WriteString(t.Op)
		for _, a := range t.Args {
			sb.WriteByte(' ')
			a.write(sb)
		}
		sb.WriteByte(')')
	}
}

func quoteSym(s string) string {
	for _, r := range s {
		if !(r >= 'a' && r <= 'z' || r >= 'A' && r <= 'Z' || r >= '0' && r <= '9' || r == '_' || r == '.' || r == '!' || r == '$' || r == '?') {
			return "|" + s + "|"
		}
	}
	if s != "" && s[0] >= '0' && s[0] <= '9' {
		return "|" + s + "|"
	}
	return s
}

// collectSyms gathers the names of all free constants / functions used in ts (closing over Defs).
func (c *Ctx) collectSyms(ts []*Term) (map[string]bool, []*Term) {
	syms := map[string]bool{}
	seen := map[*Term]bool{}
	var walk func(t *Term)
	walk = func(t *Term) {
		if seen[t] {
			return
		}
		seen[t] = true
		if t.Op == "var" || t.Op == "app" {
			syms[t.Name] = true
		}
		for _, a := range t.Args {
			walk(a)
		}
	}
	for _, t := range ts {
		walk(t)
	}
	// close over definitions: a def is needed if its defined constant is used
	defOf := map[string]*Term{}
	for _, d := range c.Defs {
		// d is (= k t) with k a var; find the var side
		for _, a := range d.Args {
			if a.Op == "var" && strings.Contains(a.Name, "!") {
				if _, dup := defOf[a.Name]; !dup {
					defOf[a.Name] = d
				}
			}
		}
	}
	var used []*Term
	done := map[string]bool{}
	for changed := true; changed; {
		changed = false
		names := make([]string, 0, len(syms))
		for n := range syms {
			names = append(names, n)
		}
		sort.Strings(names)
		for _, n := range names {
			if done[n] {
				continue
			}
			done[n] = true
			if d, ok := defOf[n]; ok {
				used = append(used, d)
				walk(d)
				changed = true
			}
		}
	}
	return syms, used
}

// Script renders a complete SMT-LIB query: declarations, definitional facts, assumptions, negated goal.
func (c *Ctx) Script(assumptions []*Term, goal *Term, getValues []*Term, header string) string {
	all := append([]*Term{}, assumptions...)
	if goal != nil {
		all = append(all, goal)
	}
	all = append(all, getValues...)
	syms, defs := c.collectSyms(all)
	var sb strings.Builder
	sb.WriteString(header)
	names := make([]string, 0, len(syms))
	for n := range syms {
		names = append(names, n)
	}
	sort.Strings(names)
	for _, n := range names {
		d := c.decls[n]
		if d == nil {
			continue
		}
		sb.WriteString("(declare-fun " + quoteSym(n) + " (")
		for i, a := range d.Args {
			if i > 0 {
				sb.WriteByte(' ')
			}
			sb.WriteString(a.String())
		}
		sb.WriteString(") " + d.Res.String() + ")\n")
	}
	groups := make([]string, 0, len(c.distinct))
	for g := range c.distinct {
		groups = append(groups, g)
	}
	sort.Strings(groups)
	for _, g := range groups {
		var in []string
		for _, n := range c.distinct[g] {
			if syms[n] {
				in = append(in, quoteSym(n))
			}
		}
		if len(in) > 1 {
			sb.WriteString("(assert (distinct " + strings.Join(in, " ") + "))\n")
		}
		// distinct constants are also positive (0 is reserved for nil / empty)
		for _, n := range in {
			sb.WriteString("(assert (> " + n + " 0))\n")
		}
	}
	roots := append(append([]*Term{}, defs...), assumptions...)
	if goal != nil {
		roots = append(roots, goal)
	}
	sp := newSharePrinter(roots)
	emit := func(prefix string, t *Term, suffix string) {
		body := sp.render(t)
		sb.WriteString(sp.flush())
		sb.WriteString(prefix + body + suffix)
	}
	for _, d := range defs {
		emit("(assert ", d, ")\n")
	}
	for _, f := range c.Facts {
		fs := map[string]bool{}
		termSyms(f, fs)
		all := true
		for n := range fs {
			if !syms[n] {
				all = false
				break
			}
		}
		if all {
			sb.WriteString("(assert " + f.String() + ")\n")
		}
	}
	for _, a := range assumptions {
		if a.IsTrue() {
			continue
		}
		emit("(assert ", a, ")\n")
	}
	if goal != nil {
		emit("(assert (not ", goal, "))\n")
	}
	sb.WriteString("(check-sat)\n")
	if len(getValues) > 0 {
		sb.WriteString("(get-value (")
		for i, v := range getValues {
			if i > 0 {
				sb.WriteByte(' ')
			}
			sb.WriteString(v.String())
		}
		sb.WriteString("))\n")
	}
	return sb.String()
}

// symsOf returns the uninterpreted symbols of t (memoised per term).
func (c *Ctx) symsOf(t *Term) map[string]bool {
	if c.symCache == nil {
		c.symCache = map[*Term]map[string]bool{}
	}
	if m, ok := c.symCache[t]; ok {
		return m
	}
	m := map[string]bool{}
	seen := map[*Term]bool{}
	var walk func(t *Term)
	walk = func(t *Term) {
		if seen[t] {
			return
		}
		seen[t] = true
		if t.Op == "var" || t.Op == "app" {
			m[t.Name] = true
		}
		for _, a := range t.Args {
			walk(a)
		}
	}
	walk(t)
	c.symCache[t] = m
	return m
}

// Slice selects the assumptions and definitions relevant to the goal by a bounded symbol-reachability
// closure. Dropping assumptions is sound (the query only gets weaker); a sliced query that is not unsat
// is retried with the full set.
func (c *Ctx) Slice(assumptions []*Term, goal *Term, rounds int) ([]*Term, []*Term) {
	c.mu.Lock()
	defer c.mu.Unlock()
	all := append(append([]*Term{}, assumptions...), c.Defs...)
	count := map[string]int{}
	for _, a := range all {
		for s := range c.symsOf(a) {
			count[s]++
		}
	}
	limit := len(all) / 6
	if limit < 12 {
		limit = 12
	}
	ubiq := func(s string) bool { return count[s] > limit }
	rel := map[string]bool{}
	for s := range c.symsOf(goal) {
		rel[s] = true
	}
	taken := make([]bool, len(all))
	for r := 0; r < rounds; r++ {
		added := false
		var newSyms []string
		for i, a := range all {
			if taken[i] {
				continue
			}
			hit := false
			for s := range c.symsOf(a) {
				if rel[s] && !ubiq(s) {
					hit = true
					break
				}
			}
			if hit {
				taken[i] = true
				added = true
				for s := range c.symsOf(a) {
					newSyms = append(newSyms, s)
				}
			}
		}
		for _, s := range newSyms {
			rel[s] = true
		}
		if !added {
			break
		}
	}
	var out, defs []*Term
	for i, a := range assumptions {
		if taken[i] {
			out = append(out, a)
		}
	}
	for i, d := range c.Defs {
		if taken[len(assumptions)+i] {
			defs = append(defs, d)
		}
	}
	return out, defs
}

// ScriptSliced renders a query with an explicit set of definitional facts (no transitive closure).
func (c *Ctx) ScriptSliced(assumptions, defs []*Term, goal *Term, header string) string {
	c.mu.Lock()
	defer c.mu.Unlock()
	all := append(append([]*Term{}, assumptions...), defs...)
	if goal != nil {
		all = append(all, goal)
	}
	syms := map[string]bool{}
	for _, t := range all {
		for s := range c.symsOf(t) {
			syms[s] = true
		}
	}
	var sb strings.Builder
	sb.WriteString(header)
	names := make([]string, 0, len(syms))
	for n := range syms {
		names = append(names, n)
	}
	sort.Strings(names)
	for _, n := range names {
		d := c.decls[n]
		if d == nil {
			continue
		}
		sb.WriteString("(declare-fun " + quoteSym(n) + " (")
		for i, a := range d.Args {
			if i > 0 {
				sb.WriteByte(' ')
			}
			sb.WriteString(a.String())
		}
		sb.WriteString(") " + d.Res.String() + ")\n")
	}
	groups := make([]string, 0, len(c.distinct))
	for g := range c.distinct {
		groups = append(groups, g)
	}
	sort.Strings(groups)
	for _, g := range groups {
		var in []string
		for _, n := range c.distinct[g] {
			if syms[n] {
				in = append(in, quoteSym(n))
			}
		}
		if len(in) > 1 {
			sb.WriteString("(assert (distinct " + strings.Join(in, " ") + "))\n")
		}
		for _, n := range in {
			sb.WriteString("(assert (> " + n + " 0))\n")
		}
	}
	for _, f := range c.Facts {
		ok := true
		for n := range c.symsOf(f) {
			if !syms[n] {
				ok = false
				break
			}
		}
		if ok {
			sb.WriteString("(assert " + f.String() + ")\n")
		}
	}
	roots := append(append([]*Term{}, defs...), assumptions...)
	roots = append(roots, goal)
	sp := newSharePrinter(roots)
	emit := func(prefix string, t *Term, suffix string) {
		body := sp.render(t)
		sb.WriteString(sp.flush())
		sb.WriteString(prefix + body + suffix)
	}
	for _, d := range defs {
		emit("(assert ", d, ")\n")
	}
	for _, a := range assumptions {
		if !a.IsTrue() {
			emit("(assert ", a, ")\n")
		}
	}
	emit("(assert (not ", goal, "))\n")
	sb.WriteString("(check-sat)\n")
	return sb.String()
}

// sharePrinter prints a set of terms as a DAG: closed sub-terms that occur more than once are bound by
// define-fun, so that the text stays linear in the number of distinct nodes.
type sharePrinter struct {
	count map[*Term]int
	name  map[*Term]string
	defs  strings.Builder
	n     int
	off   bool
}

var noShare = os.Getenv("GOVC_NOSHARE") != ""

func newSharePrinter(roots []*Term) *sharePrinter {
	p := &sharePrinter{count: map[*Term]int{}, name: map[*Term]string{}}
	var walk func(t *Term)
	walk = func(t *Term) {
		p.count[t]++
		if p.count[t] > 1 {
			return
		}
		for _, a := range t.Args {
			walk(a)
		}
	}
	for _, r := range roots {
		walk(r)
	}
	// small queries are printed as plain trees: the solvers' quantifier heuristics do measurably better on
	// them; sharing is for the queries whose tree form would be megabytes
	memo := map[*Term]int{}
	var size func(t *Term) int
	size = func(t *Term) int {
		if n, ok := memo[t]; ok {
			return n
		}
		n := 1
		for _, a := range t.Args {
			n += size(a)
			if n > 1<<24 {
				n = 1 << 24
				break
			}
		}
		memo[t] = n
		return n
	}
	total := 0
	for _, r := range roots {
		total += size(r)
		if total > 1<<24 {
			break
		}
	}
	p.off = total < shareThreshold
	return p
}

// shareThreshold: tree size (nodes) from which a query is printed with shared sub-terms.
const shareThreshold = 60000

func (p *sharePrinter) shareable(t *Term) bool {
	if len(t.Args) == 0 || p.count[t] < 2 || noShare || p.off {
		return false
	}
	if t.Op == "forall" || t.Op == "exists" {
		return !t.HasBVar()
	}
	return !t.HasBVar()
}

// render returns the text of t, emitting definitions for shared sub-terms first.
func (p *sharePrinter) render(t *Term) string {
	var sb strings.Builder
	p.write(&sb, t, true)
	return sb.String()
}

func (p *sharePrinter) write(sb *strings.Builder, t *Term, top bool) {
	if n, ok := p.name[t]; ok {
		sb.WriteString(n)
		return
	}
	if !top && p.shareable(t) {
		var body strings.Builder
		p.writeNode(&body, t)
		p.n++
		n := fmt.Sprintf("s!!%d", p.n)
		p.defs.WriteString("(define-fun " + n + " () " + t.Sort.String() + " " + body.String() + ")\n")
		p.name[t] = n
		sb.WriteString(n)
		return
	}
	p.writeNode(sb, t)
}

func (p *sharePrinter) writeNode(sb *strings.Builder, t *Term) {
	switch t.Op {
	case "lit", "true", "false", "var", "bvar":
		t.write(sb)
	case "app":
		sb.WriteByte('(')
		sb.WriteString(quoteSym(t.Name))
		for _, a := range t.Args {
			sb.WriteByte(' ')
			p.write(sb, a, false)
		}
		sb.WriteByte(')')
	case "forall", "exists":
		sb.WriteString("(" + t.Op + " (")
		for i, b := range t.Bound {
			if i > 0 {
				sb.WriteByte(' ')
			}
			sb.WriteString("(" + quoteSym(b.Name) + " " + b.Sort.String() + ")")
		}
		sb.WriteString(") ")
		p.write(sb, t.Args[0], false)
		sb.WriteByte(')')
	default:
		sb.WriteByte('(')
		sb.WriteString(t.Op)
		for _, a := range t.Args {
			sb.WriteByte(' ')
			p.write(sb, a, false)
		}
		sb.WriteByte(')')
	}
}

// flush returns the definitions emitted since the last flush.
func (p *sharePrinter) flush() string {
	s := p.defs.String()
	p.defs.Reset()
	return s
}
