package vc

import (
	"go/types"
	"sort"
	"strings"
)

// State is one symbolic state (a set of concrete states described by pc).
type State struct {
	vars     map[types.Object]Value
	mem      map[string]*Mem
	pc       []*Term
	allocTop *Term
	ghost    map[string]Value
	typed    map[*Term]bool // terms whose typing facts are already in pc
	panicked bool           // state is unwinding because of a panic
	sink     *State         // views (old heap) send their typing facts to the live state
	defers   []deferred
	// binderFacts collects typing facts about terms that mention bound variables while a quantifier
	// body is being evaluated; the quantifier adds them as hypotheses.
	binderFacts *[]*Term
	// memSeen/memTop: for every region, the version last observed and the allocation frontier at
	// (or after) the time that version was installed: values read from it are below that frontier.
	memSeen map[string]*Mem
	memTop  map[string]*Term
}

// syncTops records the current frontier for every region whose version changed since the last sync.
func (s *State) syncTops() {
	if s.memSeen == nil {
		s.memSeen, s.memTop = map[string]*Mem{}, map[string]*Term{}
	}
	for name, m := range s.mem {
		if s.memSeen[name] != m {
			s.memSeen[name] = m
			s.memTop[name] = s.allocTop
		}
	}
}

// topOf returns a frontier below which every reference stored in the current version of the region lies.
func (h *Heap) topOf(s *State, name string) *Term {
	if s.memSeen == nil {
		s.memSeen, s.memTop = map[string]*Mem{}, map[string]*Term{}
	}
	m := s.mem[name]
	if m != nil && m == h.init[name] {
		return h.C.Const("top0", SInt)
	}
	if s.memSeen[name] != m {
		s.memSeen[name] = m
		s.memTop[name] = s.allocTop
	}
	return s.memTop[name]
}

func (s *State) Clone() *State {
	n := &State{allocTop: s.allocTop, panicked: s.panicked}
	n.vars = make(map[types.Object]Value, len(s.vars))
	for k, v := range s.vars {
		n.vars[k] = v
	}
	n.mem = make(map[string]*Mem, len(s.mem))
	for k, v := range s.mem {
		n.mem[k] = v
	}
	n.ghost = make(map[string]Value, len(s.ghost))
	for k, v := range s.ghost {
		n.ghost[k] = v
	}
	n.typed = make(map[*Term]bool, len(s.typed))
	for k := range s.typed {
		n.typed[k] = true
	}
	n.pc = append([]*Term(nil), s.pc...)
	n.defers = append([]deferred(nil), s.defers...)
	n.memSeen = make(map[string]*Mem, len(s.memSeen))
	for k, v := range s.memSeen {
		n.memSeen[k] = v
	}
	n.memTop = make(map[string]*Term, len(s.memTop))
	for k, v := range s.memTop {
		n.memTop[k] = v
	}
	return n
}

func (s *State) Assume(t *Term) {
	if t == nil || t.IsTrue() {
		return
	}
	if s.sink != nil {
		s.sink.Assume(t)
		return
	}
	s.pc = append(s.pc, t)
}

// Heap is the machinery shared by all states of one function verification: the context and the
// initial (entry) versions of the regions, created lazily so that old() and the final state agree.
type Heap struct {
	C      *Ctx
	init   map[string]*Mem
	schema map[string][]regionSchema // leaf regions below a modifies prefix
	// ImplOf(v, T) is the predicate "the dynamic type of interface value v implements T"
	ImplOf func(v *Term, t types.Type) *Term
}

type regionSchema struct {
	name  string
	arity int
	sort  Sort
}

func NewHeap(c *Ctx) *Heap {
	return &Heap{C: c, init: map[string]*Mem{}, schema: map[string][]regionSchema{}}
}

func (h *Heap) region(s *State, name string, arity int, so Sort) *Mem {
	if m, ok := s.mem[name]; ok {
		return m
	}
	m, ok := h.init[name]
	if !ok {
		m = h.C.NewBaseMem(name, arity, so, "0")
		h.C.SetBaseTop(m, h.C.Const("top0", SInt))
		h.init[name] = m
	}
	s.mem[name] = m
	return m
}

// ---- typing facts -------------------------------------------------------------------------

// assumeTyped adds the facts every value of Go type t satisfies (DESIGN 2.2: ranges of unsigned
// integers, well-formed slice headers, allocated references).
func (h *Heap) assumeTyped(s *State, v Value) {
	c := h.C
	switch kindOf(v.T) {
	case kStruct:
		for _, f := range v.Fields {
			h.assumeTyped(s, f)
		}
	case kSlice:
		sl := v.Sl
		fact := c.And(c.Ge(sl.Arr, c.Int(0)), c.Le(sl.Arr, s.allocTop), c.Ge(sl.Off, c.Int(0)), c.Ge(sl.Len, c.Int(0)), c.Le(sl.Len, sl.Cap),
			c.Implies(c.Eq(sl.Arr, c.Int(0)), c.And(c.Eq(sl.Cap, c.Int(0)), c.Eq(sl.Off, c.Int(0)))))
		if sl.Arr.HasBVar() || sl.Len.HasBVar() {
			// under a binder the current frontier is left out, so that the formula does not depend on the
			// state it is evaluated in (frontier facts come from the base memories, see baseFacts)
			fact = c.And(c.Ge(sl.Arr, c.Int(0)), c.Ge(sl.Off, c.Int(0)), c.Ge(sl.Len, c.Int(0)), c.Le(sl.Len, sl.Cap),
				c.Implies(c.Eq(sl.Arr, c.Int(0)), c.And(c.Eq(sl.Cap, c.Int(0)), c.Eq(sl.Off, c.Int(0)))))
			if s.binderFacts != nil {
				*s.binderFacts = append(*s.binderFacts, fact)
			}
			return
		}
		if s.typed[fact] {
			return
		}
		s.typed[fact] = true
		s.Assume(fact)
	case kInt:
		if isUnsigned(v.T) {
			h.typeFact(s, v.Term, c.Ge(v.Term, c.Int(0)))
		}
	case kIface:
		// maxref(v): the largest reference held inside the boxed value; it existed when v was stored
		mr := c.App("maxref", SInt, v.Term)
		fact := c.And(c.Ge(v.Term, c.Int(0)), c.Le(mr, s.allocTop), c.Ge(mr, c.Int(0)))
		if v.Term.HasBVar() {
			fact = c.And(c.Ge(v.Term, c.Int(0)), c.Ge(mr, c.Int(0)))
		}
		if it, ok := v.T.Underlying().(*types.Interface); ok && it.NumMethods() > 0 && h.ImplOf != nil {
			fact = c.And(fact, c.Or(c.Eq(v.Term, c.Int(0)), h.ImplOf(v.Term, v.T)))
		}
		h.typeFact(s, v.Term, fact)
	case kString, kOpaque:
		h.typeFact(s, v.Term, c.Ge(v.Term, c.Int(0)))
	case kRef:
		if v.Term.HasBVar() {
			h.typeFact(s, v.Term, c.Ge(v.Term, c.Int(0)))
		} else {
			h.typeFact(s, v.Term, c.And(c.Ge(v.Term, c.Int(0)), c.Le(v.Term, s.allocTop)))
		}
	}
}

func (h *Heap) typeFact(s *State, t *Term, fact *Term) {
	if t.HasBVar() {
		if s.binderFacts != nil {
			*s.binderFacts = append(*s.binderFacts, fact)
		}
		return
	}
	if t.IsLit() || s.typed[fact] {
		return
	}
	s.typed[fact] = true
	s.Assume(fact)
}

// freshValue returns an arbitrary value of type t.
func (h *Heap) freshValue(s *State, t types.Type, hint string) Value {
	ls := leavesOf(t)
	ts := make([]*Term, len(ls))
	for i, l := range ls {
		ts[i] = h.C.Fresh(hint+l.Path, l.Sort)
	}
	v := unflatten(t, ts)
	h.assumeTyped(s, v)
	return v
}

// zeroValue returns the Go zero value of t.
func (h *Heap) zeroValue(t types.Type) Value {
	ls := leavesOf(t)
	ts := make([]*Term, len(ls))
	for i, l := range ls {
		if l.Sort == SBool {
			ts[i] = h.C.False()
		} else {
			ts[i] = h.C.Int(0)
		}
	}
	return unflatten(t, ts)
}

// ---- allocation ---------------------------------------------------------------------------

func (h *Heap) alloc(s *State, hint string) *Term {
	s.syncTops()
	r := h.C.Fresh("new_"+hint, SInt)
	s.Assume(h.C.Gt(r, s.allocTop))
	s.allocTop = r
	s.typed[r] = true
	return r
}

// ---- generic leaf-wise region access --------------------------------------------------------

func (h *Heap) readLeaves(s *State, prefix string, arity int, t types.Type, ref, idx *Term) Value {
	ls := leavesOf(t)
	ts := make([]*Term, len(ls))
	for i, l := range ls {
		m := h.region(s, prefix+l.Path, arity, l.Sort)
		ts[i] = h.C.Read(m, ref, idx)
		if l.Sort == SInt && (l.T == nil || isAllocRefType(l.T)) {
			h.baseFacts(s, ts[i], false)
		} else if l.Sort == SInt && l.T != nil && kindOf(l.T) == kIface {
			h.baseFacts(s, ts[i], true)
		}
	}
	v := unflatten(t, ts)
	h.assumeTyped(s, v)
	return v
}

func isAllocRefType(t types.Type) bool {
	if isContextType(t) {
		return true
	}
	switch t.Underlying().(type) {
	case *types.Pointer, *types.Map, *types.Chan:
		return true
	}
	return false
}

// baseFacts adds, for every application M(ref, ..) of a base memory inside t, the fact that the stored
// reference is below the frontier of M, provided the object ref existed then (cells of objects allocated
// later by callees are bounded by the current frontier only).
func (h *Heap) baseFacts(s *State, t *Term, iface bool) {
	c := h.C
	if c.BaseTop == nil {
		return
	}
	seen := map[*Term]bool{}
	var walk func(t *Term)
	walk = func(t *Term) {
		if seen[t] {
			return
		}
		seen[t] = true
		if t.Op == "app" && t.Sort == SInt && !hasModBVar(t) {
			if bt, ok := c.BaseTop[t.Name]; ok && len(t.Args) >= 1 {
				fact := c.Implies(c.Le(t.Args[0], bt), c.Le(t, bt))
				if iface {
					// an interface value stored before the frontier holds only references below it
					fact = c.Implies(c.Le(t.Args[0], bt), c.Le(c.App("maxref", SInt, t), bt))
				}
				if t.HasBVar() {
					if s.binderFacts != nil {
						*s.binderFacts = append(*s.binderFacts, fact)
					}
				} else if !s.typed[fact] {
					s.typed[fact] = true
					s.Assume(fact)
				}
			}
		}
		if t.Op == "forall" || t.Op == "exists" {
			return // closed sub-formula (path conditions inside merged memories)
		}
		for _, a := range t.Args {
			walk(a)
		}
	}
	walk(t)
}

func (h *Heap) writeLeaves(s *State, prefix string, arity int, t types.Type, ref, idx *Term, v Value) {
	ls := leavesOf(t)
	ts := flatten(v)
	if len(ts) != len(ls) {
		panic("writeLeaves: shape mismatch for " + typeStr(t) + " <- " + typeStr(v.T))
	}
	for i, l := range ls {
		name := prefix + l.Path
		m := h.region(s, name, arity, l.Sort)
		s.mem[name] = h.C.Store(m, ref, idx, ts[i])
	}
}

// struct fields through a pointer. owner is the struct type (named or not).
func fieldRegion(owner types.Type, field string) string {
	return "F|" + typeStr(owner) + "|" + field
}

func (h *Heap) ReadField(s *State, owner types.Type, f *types.Var, ref *Term) Value {
	checkInterior(ref)
	return h.readLeaves(s, fieldRegion(owner, f.Name()), 1, f.Type(), ref, nil)
}
func (h *Heap) WriteField(s *State, owner types.Type, f *types.Var, ref *Term, v Value) {
	checkInterior(ref)
	h.writeLeaves(s, fieldRegion(owner, f.Name()), 1, f.Type(), ref, nil, v)
}

// pointer cells for non-struct pointees
func cellRegion(elem types.Type) string { return "P|" + typeStr(elem) }

func (h *Heap) ReadCell(s *State, elem types.Type, ref *Term) Value {
	return h.readLeaves(s, cellRegion(elem), 1, elem, ref, nil)
}
func (h *Heap) WriteCell(s *State, elem types.Type, ref *Term, v Value) {
	h.writeLeaves(s, cellRegion(elem), 1, elem, ref, nil, v)
}

// LoadPtr reads *p for any pointee type.
func (h *Heap) LoadPtr(s *State, elem types.Type, ref *Term) Value {
	checkInterior(ref)
	if kindOf(elem) == kStruct {
		st := elem.Underlying().(*types.Struct)
		v := Value{T: elem, Fields: make([]Value, st.NumFields())}
		for i := 0; i < st.NumFields(); i++ {
			v.Fields[i] = h.ReadField(s, elem, st.Field(i), ref)
		}
		return v
	}
	return h.ReadCell(s, elem, ref)
}

func (h *Heap) StorePtr(s *State, elem types.Type, ref *Term, v Value) {
	checkInterior(ref)
	if kindOf(elem) == kStruct {
		st := elem.Underlying().(*types.Struct)
		for i := 0; i < st.NumFields(); i++ {
			h.WriteField(s, elem, st.Field(i), ref, v.Fields[i])
		}
		return
	}
	h.WriteCell(s, elem, ref, v)
}

// slice cells
func sliceRegion(elem types.Type) string { return "S|" + typeStr(elem) }

func (h *Heap) ReadElem(s *State, elem types.Type, arr, abs *Term) Value {
	return h.readLeaves(s, sliceRegion(elem), 2, elem, arr, abs)
}
func (h *Heap) WriteElem(s *State, elem types.Type, arr, abs *Term, v Value) {
	h.writeLeaves(s, sliceRegion(elem), 2, elem, arr, abs, v)
}

// maps
func mapDomRegion(mt types.Type) string  { return "MD|" + typeStr(mt) }
func mapValRegion(mt types.Type) string  { return "MV|" + typeStr(mt) }
func mapCardRegion(mt types.Type) string { return "MC|" + typeStr(mt) }

func mapType(t types.Type) *types.Map { return t.Underlying().(*types.Map) }

func (h *Heap) MapHas(s *State, mt types.Type, m, k *Term) *Term {
	d := h.region(s, mapDomRegion(mt), 2, SBool)
	has := h.C.Read(d, m, k)
	if !has.HasBVar() && !m.HasBVar() {
		card := h.MapCardRaw(s, mt, m)
		key := h.C.Implies(has, h.C.Ge(card, h.C.Int(1)))
		if !s.typed[key] {
			s.typed[key] = true
			s.Assume(key)
		}
	}
	return has
}
func (h *Heap) MapCardRaw(s *State, mt types.Type, m *Term) *Term {
	cr := h.region(s, mapCardRegion(mt), 1, SInt)
	return h.C.Read(cr, m, nil)
}
func (h *Heap) MapCard(s *State, mt types.Type, m *Term) *Term {
	card := h.MapCardRaw(s, mt, m)
	if !card.HasBVar() {
		f := h.C.And(h.C.Ge(card, h.C.Int(0)), h.C.Implies(h.C.Eq(m, h.C.Int(0)), h.C.Eq(card, h.C.Int(0))))
		if !s.typed[f] {
			s.typed[f] = true
			s.Assume(f)
		}
	}
	return card
}
func (h *Heap) MapGet(s *State, mt types.Type, m, k *Term) Value {
	return h.readLeaves(s, mapValRegion(mt), 2, mapType(mt).Elem(), m, k)
}

// MapLookup is the Go semantics of m[k]: zero value when absent.
func (h *Heap) MapLookup(s *State, mt types.Type, m, k *Term) (Value, *Term) {
	has := h.C.And(h.C.Ne(m, h.C.Int(0)), h.MapHas(s, mt, m, k))
	raw := h.MapGet(s, mt, m, k)
	zero := h.zeroValue(mapType(mt).Elem())
	return h.iteValue(has, raw, zero), has
}

func (h *Heap) MapStore(s *State, mt types.Type, m, k *Term, v Value) {
	c := h.C
	had := h.MapHas(s, mt, m, k)
	card := h.MapCardRaw(s, mt, m)
	dn := mapDomRegion(mt)
	s.mem[dn] = c.Store(h.region(s, dn, 2, SBool), m, k, c.True())
	h.writeLeaves(s, mapValRegion(mt), 2, mapType(mt).Elem(), m, k, v)
	cn := mapCardRegion(mt)
	s.mem[cn] = c.Store(h.region(s, cn, 1, SInt), m, nil, c.Ite(had, card, c.Add(card, c.Int(1))))
}

func (h *Heap) MapDelete(s *State, mt types.Type, m, k *Term) {
	c := h.C
	had := c.And(c.Ne(m, c.Int(0)), h.MapHas(s, mt, m, k))
	card := h.MapCardRaw(s, mt, m)
	dn := mapDomRegion(mt)
	cur := h.region(s, dn, 2, SBool)
	// deleting from a nil map is a no-op: guard the store by m != nil
	s.mem[dn] = c.MemIte(c.Ne(m, c.Int(0)), c.Store(cur, m, k, c.False()), cur)
	cn := mapCardRegion(mt)
	s.mem[cn] = c.Store(h.region(s, cn, 1, SInt), m, nil, c.Ite(had, c.Sub(card, c.Int(1)), card))
}

// MapNew allocates an empty map.
func (h *Heap) MapNew(s *State, mt types.Type) *Term {
	c := h.C
	r := h.alloc(s, "map")
	dn := mapDomRegion(mt)
	s.mem[dn] = c.InitRef(h.region(s, dn, 2, SBool), r, c.False())
	cn := mapCardRegion(mt)
	s.mem[cn] = c.Store(h.region(s, cn, 1, SInt), r, nil, c.Int(0))
	return r
}

// ---- value helpers ----------------------------------------------------------------------------

func (h *Heap) iteValue(cond *Term, a, b Value) Value {
	if cond.IsTrue() {
		return a
	}
	if cond.IsFalse() {
		return b
	}
	ta, tb := flatten(a), flatten(b)
	if len(ta) != len(tb) {
		panic("iteValue: shape mismatch " + typeStr(a.T) + " / " + typeStr(b.T))
	}
	out := make([]*Term, len(ta))
	for i := range ta {
		out[i] = h.C.Ite(cond, ta[i], tb[i])
	}
	t := a.T
	if t == nil {
		t = b.T
	}
	return unflatten(t, out)
}

func (h *Heap) eqValue(a, b Value) *Term {
	ta, tb := flatten(a), flatten(b)
	if len(ta) != len(tb) {
		panic("eqValue: shape mismatch " + typeStr(a.T) + " / " + typeStr(b.T))
	}
	var cs []*Term
	for i := range ta {
		cs = append(cs, h.C.Eq(ta[i], tb[i]))
	}
	return h.C.And(cs...)
}

// ---- merging ------------------------------------------------------------------------------------

// Merge joins states that forked from a common ancestor. Their path conditions are mutually
// exclusive by construction.
func (h *Heap) Merge(states []*State) *State {
	var live []*State
	for _, s := range states {
		if s != nil {
			live = append(live, s)
		}
	}
	if len(live) == 0 {
		return nil
	}
	if len(live) == 1 {
		return live[0]
	}
	acc := live[0]
	for _, s := range live[1:] {
		acc = h.merge2(acc, s)
	}
	return acc
}

func (h *Heap) merge2(a, b *State) *State {
	c := h.C
	// common prefix of the path conditions
	n := 0
	for n < len(a.pc) && n < len(b.pc) && a.pc[n] == b.pc[n] {
		n++
	}
	ga := c.NameTerm("g", c.And(a.pc[n:]...))
	gb := c.And(b.pc[n:]...)
	out := &State{vars: map[types.Object]Value{}, mem: map[string]*Mem{}, ghost: map[string]Value{}, typed: map[*Term]bool{}}
	out.pc = append(append([]*Term(nil), a.pc[:n]...), c.Or(ga, gb))
	out.panicked = a.panicked
	if len(a.defers) != len(b.defers) {
		panic(unsupported("join of paths with different deferred calls"))
	}
	out.defers = append([]deferred(nil), a.defers...)
	for t := range a.typed {
		if b.typed[t] {
			out.typed[t] = true
		}
	}
	// typing facts dropped with the suffixes are re-added lazily on the next read
	out.allocTop = c.Ite(ga, a.allocTop, b.allocTop)
	if out.allocTop != a.allocTop {
		out.allocTop = c.NameTerm("top", out.allocTop)
	}
	for o, va := range a.vars {
		vb, ok := b.vars[o]
		if !ok {
			continue // variable declared in one branch only: out of scope after the join
		}
		out.vars[o] = h.mergeValue(ga, va, vb)
	}
	for k, va := range a.ghost {
		if vb, ok := b.ghost[k]; ok {
			out.ghost[k] = h.mergeValue(ga, va, vb)
		}
	}
	names := map[string]bool{}
	for k := range a.mem {
		names[k] = true
	}
	for k := range b.mem {
		names[k] = true
	}
	ks := make([]string, 0, len(names))
	for k := range names {
		ks = append(ks, k)
	}
	sort.Strings(ks)
	for _, k := range ks {
		ma, mb := a.mem[k], b.mem[k]
		if ma == nil {
			ma = h.init[k]
		}
		if mb == nil {
			mb = h.init[k]
		}
		out.mem[k] = c.MemIte(ga, ma, mb)
	}
	return out
}

func (h *Heap) mergeValue(g *Term, a, b Value) Value {
	ta, tb := flatten(a), flatten(b)
	if len(ta) != len(tb) {
		// shapes can differ only for dead variables; keep a
		return a
	}
	same := true
	for i := range ta {
		if ta[i] != tb[i] {
			same = false
		}
	}
	if same {
		return a
	}
	out := make([]*Term, len(ta))
	for i := range ta {
		out[i] = h.C.Ite(g, ta[i], tb[i])
		// name merged values: nested merges would otherwise repeat ever larger ite terms at every use
		if out[i] != ta[i] && out[i] != tb[i] && out[i].Size() > 12 {
			out[i] = h.C.NameTerm("m", out[i])
		}
	}
	return unflatten(a.T, out)
}

// hasModBVar: the term mentions a variable bound by a quantified modifies target (those quantifiers live
// inside havoc keep-conditions and are not visible to the enclosing specification binders).
func hasModBVar(t *Term) bool {
	if t.Op == "bvar" {
		return strings.HasPrefix(t.Name, "modk")
	}
	for _, a := range t.Args {
		if hasModBVar(a) {
			return true
		}
	}
	return false
}

// checkInterior: &s[i] is an opaque address in this generator; a load or store through it is outside the
// modelled subset (the cell it aliases would not see it), so the function cannot be verified as written.
func checkInterior(ref *Term) {
	if ref != nil && ref.Op == "app" && strings.HasPrefix(ref.Name, "elemaddr_") {
		panic(unsupported("access through an interior pointer into a slice cell (&s[i]): not tracked by the generator"))
	}
}
