package vc

import (
	"fmt"
	"go/ast"
	"go/token"
	"go/types"
	"strings"
)

// gocall.go: calls — builtins, conversions, calls by contract, inlined literals, library models.

func (x *fnv) evalCall(s *State, call *ast.CallExpr) []Value {
	res := x.evalCall0(s, call)
	if x.fc != nil && len(x.fc.Ats) > 0 {
		x.runAts(s, types.ExprString(call.Fun), call, true, res, nil, nil)
	}
	return res
}

func (x *fnv) evalCall0(s *State, call *ast.CallExpr) []Value {
	c := x.c
	// conversion T(x)
	if tv, ok := x.info.Types[call.Fun]; ok && tv.IsType() {
		v := x.eval(s, call.Args[0])
		return []Value{x.convert(s, v, tv.Type, call.Pos())}
	}
	fun := ast.Unparen(call.Fun)
	// builtin
	if id, ok := fun.(*ast.Ident); ok {
		if b, ok := x.info.Uses[id].(*types.Builtin); ok {
			return x.evalBuiltin(s, b.Name(), call)
		}
	}
	// strip explicit instantiation
	switch f := fun.(type) {
	case *ast.IndexExpr:
		if tv, ok := x.info.Types[f.Index]; ok && tv.IsType() {
			fun = f.X
		}
	case *ast.IndexListExpr:
		fun = f.X
	}
	var tgt *callTarget
	var recv *Value
	switch f := fun.(type) {
	case *ast.Ident:
		if fo, ok := x.info.Uses[f].(*types.Func); ok {
			tgt = &callTarget{obj: fo}
		}
	case *ast.SelectorExpr:
		if sel, ok := x.info.Selections[f]; ok {
			if sel.Kind() == types.MethodVal {
				rv := x.eval(s, f.X)
				idx := sel.Index()
				if len(idx) > 1 {
					rv = x.selectPath(s, rv, idx[:len(idx)-1], f.Pos())
				}
				fo := sel.Obj().(*types.Func)
				rv = x.adjustRecv(s, rv, fo, f.Pos())
				recv = &rv
				tgt = &callTarget{obj: fo, recv: recv}
			}
		} else if fo, ok := x.info.Uses[f.Sel].(*types.Func); ok {
			tgt = &callTarget{obj: fo}
		}
	}
	var fv Value
	if tgt == nil {
		fv = x.eval(s, fun)
		if fv.Fn != nil {
			tgt = fv.Fn
			recv = tgt.recv
		}
	}
	// signature as instantiated at this call site
	sig, _ := x.typeOf(call.Fun).Underlying().(*types.Signature)
	if sig == nil {
		panic(unsupported("call of non-function %s", types.ExprString(call.Fun)))
	}
	if tgt != nil && tgt.obj != nil {
		if res, ok := x.preModelCall(s, tgt.obj, call); ok {
			return res
		}
	}
	args := x.evalArgs(s, call, sig)
	name := types.ExprString(call.Fun)
	x.runAts(s, name, call, false, nil, args, recv)

	if tgt != nil && tgt.obj != nil {
		if res, ok := x.modelCall(s, tgt.obj, recv, args, call); ok {
			return res
		}
		fo := tgt.obj.Origin()
		if fi := x.p.ByObj[fo]; fi != nil {
			if fc := x.p.Contract(fi); fc != nil {
				fc.UsedBy[x.qual()] = true
				return x.applyContract(s, fc, fi.Sig, fi.Pkg.PkgPath, fi.QualName(), recv, args, sig, call.Pos())
			}
			x.assumeNote("callee without contract (results arbitrary, assumed not to write pre-existing framework memory): " + fi.QualName())
			return x.havocCall(s, sig, "ret_"+fo.Name())
		}
		// interface method?
		if rs := fo.Type().(*types.Signature).Recv(); rs != nil {
			if _, isIface := rs.Type().Underlying().(*types.Interface); isIface {
				if recv != nil && recv.Term != nil && kindOf(recv.T) == kIface {
					// calling a method on a nil interface value panics
					x.safe(s, "nilrecv", c.Ne(recv.Term, c.Int(0)), call.Pos())
				}
				key := "(" + typeShort(rs.Type()) + ")." + fo.Name()
				pkgPath := ""
				if fo.Pkg() != nil {
					pkgPath = fo.Pkg().Path()
				}
				if fc := x.p.Contracts.Funcs[pkgPath+"::"+key]; fc != nil {
					fc.UsedBy[x.qual()] = true
					return x.applyContract(s, fc, fo.Type().(*types.Signature), pkgPath, key, recv, args, sig, call.Pos())
				}
				if _, under := x.p.Pkgs[pkgPath]; under && !isContractFreeIface(pkgPath, typeShort(rs.Type())) {
					x.assumeNote("interface method without contract (results arbitrary, no framework memory written): " + key)
				}
				return x.havocCall(s, sig, "ret_"+fo.Name())
			}
		}
		x.assumeNote("external function modelled as pure havoc: " + fo.FullName())
		return x.havocCall(s, sig, "ret_"+fo.Name())
	}
	if tgt != nil && tgt.lit != nil {
		return x.inlineLit(s, tgt.lit, args, call.Pos())
	}
	// dynamic call of a function value
	x.safe(s, "nilfunc", c.Ne(fv.Term, c.Int(0)), call.Pos())
	// function-typed struct field with a (trusted) field contract
	if se, ok := fun.(*ast.SelectorExpr); ok {
		if sel, ok := x.info.Selections[se]; ok && sel.Kind() == types.FieldVal {
			owner := x.typeOf(se.X)
			if pt, ok := owner.Underlying().(*types.Pointer); ok {
				owner = pt.Elem()
			}
			if n, ok := owner.(*types.Named); ok && n.Obj().Pkg() != nil && len(sel.Index()) == 1 {
				id := n.Obj().Pkg().Path() + "::field:" + n.Obj().Name() + "." + se.Sel.Name
				if fc := x.p.Contracts.Funcs[id]; fc != nil {
					fc.UsedBy[x.qual()] = true
					rv := x.eval(s, se.X)
					if fsig, ok := sel.Obj().Type().Underlying().(*types.Signature); ok {
						return x.applyContract(s, fc, fsig, n.Obj().Pkg().Path(), n.Obj().Name()+"."+se.Sel.Name, &rv, args, sig, call.Pos())
					}
				}
			}
		}
	}
	x.assumeNote("function values (callbacks) are assumed not to write pre-existing framework memory")
	if x.fc != nil && x.fc.NoPanic {
		x.forkPanic(s, "callback "+name)
	}
	return x.havocCall(s, sig, "cb_"+sanitize(name))
}

func isContractFreeIface(pkgPath, name string) bool { return false }

func typeShort(t types.Type) string {
	if n, ok := t.(*types.Named); ok {
		return n.Obj().Name()
	}
	return typeStr(t)
}

// adjustRecv converts the receiver expression value to what the method expects (auto & / *).
func (x *fnv) adjustRecv(s *State, rv Value, fo *types.Func, pos token.Pos) Value {
	rs := fo.Type().(*types.Signature).Recv()
	if rs == nil {
		return rv
	}
	_, wantPtr := rs.Type().Underlying().(*types.Pointer)
	_, havePtr := rv.T.Underlying().(*types.Pointer)
	if _, isIface := rs.Type().Underlying().(*types.Interface); isIface {
		return rv
	}
	switch {
	case wantPtr == havePtr:
		return rv
	case !wantPtr && havePtr:
		x.safe(s, "nil", x.c.Ne(rv.Term, x.c.Int(0)), pos)
		return x.h.LoadPtr(s, rv.T.Underlying().(*types.Pointer).Elem(), rv.Term)
	}
	// want pointer, have addressable value: methods with pointer receivers on local struct values
	// are given a temporary cell (writes through it are lost: refuse if the method has a modifies clause)
	r := x.h.alloc(s, "tmp")
	x.h.StorePtr(s, rv.T, r, rv)
	return Value{T: types.NewPointer(rv.T), Term: r}
}

func (x *fnv) evalArgs(s *State, call *ast.CallExpr, sig *types.Signature) []Value {
	c := x.c
	var raw []Value
	if len(call.Args) == 1 {
		raw = x.evalMulti(s, call.Args[0])
	} else {
		for _, a := range call.Args {
			raw = append(raw, x.eval(s, a))
		}
	}
	np := sig.Params().Len()
	out := make([]Value, 0, np)
	if !sig.Variadic() {
		for i := 0; i < np && i < len(raw); i++ {
			out = append(out, x.coerce(s, raw[i], sig.Params().At(i).Type()))
		}
		return out
	}
	for i := 0; i < np-1; i++ {
		out = append(out, x.coerce(s, raw[i], sig.Params().At(i).Type()))
	}
	vt := sig.Params().At(np - 1).Type()
	if call.Ellipsis.IsValid() {
		out = append(out, x.coerce(s, raw[np-1], vt))
		return out
	}
	et := vt.Underlying().(*types.Slice).Elem()
	extra := raw[np-1:]
	if len(extra) == 0 {
		out = append(out, x.h.zeroValue(vt))
		return out
	}
	arr := x.h.alloc(s, "varargs")
	for i, v := range extra {
		x.h.WriteElem(s, et, arr, c.Int(int64(i)), x.coerce(s, v, et))
	}
	n := c.Int(int64(len(extra)))
	out = append(out, Value{T: vt, Sl: &SliceVal{Arr: arr, Off: c.Int(0), Len: n, Cap: n}})
	return out
}

// havocCall returns arbitrary results; the callee may allocate.
func (x *fnv) havocCall(s *State, sig *types.Signature, hint string) []Value {
	s.syncTops()
	top := x.c.Fresh("top", SInt)
	s.Assume(x.c.Ge(top, s.allocTop))
	s.allocTop = top
	res := make([]Value, sig.Results().Len())
	for i := range res {
		res[i] = x.h.freshValue(s, sig.Results().At(i).Type(), fmt.Sprintf("%s_%d", hint, i))
	}
	return res
}

// ---- calls by contract -------------------------------------------------------------------------------

// applyContract: assert pre, havoc the modifies set, assume post. declSig carries the parameter
// names the contract refers to; callSig the instantiated types at this call site.
func (x *fnv) applyContract(s *State, fc *FuncContract, declSig *types.Signature, pkgPath, qname string, recv *Value, args []Value, callSig *types.Signature, pos token.Pos) []Value {
	c := x.c
	env := x.newSpecEnv(s, s, pkgPath)
	x.bindParams(env, declSig, recv, args)
	short := qname
	if i := strings.Index(short, "."); i >= 0 && !strings.HasPrefix(short, "(") {
		short = short[i+1:]
	}
	for _, cl := range fc.Requires {
		g := env.goal(cl.Expr)
		label := short
		if cl.Label != "" {
			label += "." + cl.Label
		}
		label = fmt.Sprintf("%s.%d", label, x.nextOrd("pre."+label))
		x.oblige(s, "pre", label, g, pos, cl)
	}
	s.syncTops()
	pre := s.Clone()
	// modifies
	if !fc.Pure {
		envPre := x.newSpecEnv(pre, pre, pkgPath)
		x.bindParams(envPre, declSig, recv, args)
		for _, cl := range fc.Modifies {
			for _, tg := range envPre.evalModTargets(cl.Expr) {
				if tg.fresh {
					continue // the callee's own allocations do not exist yet: nothing of the caller's changes
				}
				x.havocTarget(s, tg, "call")
			}
		}
		top := c.Fresh("top", SInt)
		s.Assume(c.Ge(top, s.allocTop))
		s.allocTop = top
		// what the callee stored refers to objects existing when it returned
		for _, rb := range x.pendingRaw {
			c.SetBaseTop(rb, top)
		}
		x.pendingRaw = nil
	}
	// results
	res := make([]Value, callSig.Results().Len())
	post := x.newSpecEnv(s, pre, pkgPath)
	x.bindParams(post, declSig, recv, args)
	for i := range res {
		rt := callSig.Results().At(i).Type()
		res[i] = x.h.freshValue(s, rt, fmt.Sprintf("%s_r%d", sanitize(short), i))
		post.vars[fmt.Sprintf("result%d", i)] = res[i]
		if n := declSig.Results().At(i).Name(); n != "" && n != "_" {
			post.vars[n] = res[i]
		}
	}
	if len(res) == 1 {
		post.vars["result"] = res[0]
	}
	// the callee's ghost variables: their final values are known only through its postconditions
	for _, g := range fc.Ghosts {
		post.vars[g.Name] = x.h.freshValue(s, post.resolveType(g.Type), "ghost_"+g.Name)
	}
	if fc.Trusted && len(fc.Ensures) > 0 {
		why := ""
		if len(fc.Notes) > 0 {
			why = " (" + fc.Notes[0] + ")"
		}
		x.assumeNote("trusted contract of " + qname + ": its postconditions are assumed, its body is not verified" + why)
	}
	if fc.Abstract && len(fc.Ensures) > 0 {
		x.assumeNote("contract of interface method / function-valued field " + qname + " is assumed at this call (the implementations in the tree are verified separately; the refinement step is by inspection)")
	}
	if len(fc.Skip) > 0 && fc.Skip["post"] && len(fc.Ensures) > 0 {
		x.assumeNote("postconditions of " + qname + " are trusted (its contract skips `post`)")
	}
	useEnsures := true
	if x.fc != nil && x.fc.Uses != nil && !x.fc.Uses[short] {
		useEnsures = false // the caller's contract says it does not rely on this callee's postconditions
	}
	if useEnsures {
		for _, cl := range fc.Ensures {
			s.Assume(post.assumption(cl.Expr))
		}
	}
	// vacuity guard: the callee's postconditions must be consistent with what is known here
	if len(fc.Ensures) > 0 && useEnsures {
		x.cover(s, "call."+sanitize(short), pos)
	}
	return res
}

func (x *fnv) bindParams(env *specEnv, sig *types.Signature, recv *Value, args []Value) {
	if recv != nil {
		env.vars["recv"] = *recv
		if r := sig.Recv(); r != nil && r.Name() != "" && r.Name() != "_" {
			env.vars[r.Name()] = *recv
		}
	}
	for i := 0; i < sig.Params().Len() && i < len(args); i++ {
		p := sig.Params().At(i)
		env.vars[fmt.Sprintf("arg%d", i)] = args[i]
		if p.Name() != "" && p.Name() != "_" {
			env.vars[p.Name()] = args[i]
		}
	}
}

// modTarget is one element of a modifies clause: all regions whose name has the given prefix, at
// the cells selected by match.
type modTarget struct {
	fresh  bool // the `fresh()` target: objects allocated by the function itself
	prefix string
	match  func(ref, idx *Term) *Term
	desc   string
}

func regionHasPrefix(name, prefix string) bool {
	if prefix == "" {
		return true // `fresh()`: every region, restricted by the target's match to cells allocated in this call
	}
	if name == prefix {
		return true
	}
	if strings.HasPrefix(name, prefix) {
		r := name[len(prefix)]
		return r == '.' || r == '#' || r == '|'
	}
	return false
}

// havocTarget makes the cells of tg arbitrary in s. Regions not yet materialised are created so
// that later reads see the havoc.
func (x *fnv) havocTarget(s *State, tg modTarget, tag string) {
	for _, rn := range x.regionsWithPrefix(s, tg.prefix) {
		m := s.mem[rn]
		rn, tg := rn, tg
		hm := x.c.Havoc(m, tag, func(ref, idx *Term) *Term { return x.c.Not(x.matchIn(tg, rn, ref, idx)) })
		x.pendingRaw = append(x.pendingRaw, hm.RawOf())
		s.mem[rn] = hm
	}
}

// regionsWithPrefix materialises the leaf regions under a prefix. The set of leaves is derived from
// the region schema registered when the prefix was computed (see specEnv.evalModTargets), plus
// whatever the state already holds.
func (x *fnv) regionsWithPrefix(s *State, prefix string) []string {
	seen := map[string]bool{}
	var out []string
	for _, sch := range x.h.schema[prefix] {
		x.h.region(s, sch.name, sch.arity, sch.sort)
		if !seen[sch.name] {
			seen[sch.name] = true
			out = append(out, sch.name)
		}
	}
	for rn := range s.mem {
		if regionHasPrefix(rn, prefix) && !seen[rn] {
			seen[rn] = true
			out = append(out, rn)
		}
	}
	for rn := range x.h.init {
		if regionHasPrefix(rn, prefix) && !seen[rn] {
			seen[rn] = true
			m := x.h.init[rn]
			x.h.region(s, rn, m.Arity, m.Sort)
			out = append(out, rn)
		}
	}
	sortStrings(out)
	return out
}

// ---- inlining of function literals ---------------------------------------------------------------

func (x *fnv) inlineLit(s *State, lit *ast.FuncLit, args []Value, pos token.Pos) []Value {
	x.nInline++
	if x.nInline > 200 {
		panic(unsupported("too many inlined literals"))
	}
	sig := x.typeOf(lit).(*types.Signature)
	fr := &frame{lit: true}
	// bind parameters
	i := 0
	for _, fld := range lit.Type.Params.List {
		for _, nm := range fld.Names {
			o := x.info.Defs[nm]
			if o != nil && i < len(args) {
				x.declVar(s, o, args[i])
			}
			i++
		}
		if len(fld.Names) == 0 {
			i++
		}
	}
	fr.results = x.resultVars(s, sig, lit.Type.Results)
	fr.deferBase = len(s.defers)
	x.frames = append(x.frames, fr)
	savedPos := x.curPos
	fl := x.execBlock(s.Clone(), lit.Body.List)
	x.curPos = savedPos
	x.frames = x.frames[:len(x.frames)-1]
	var ends []*State
	if fl.next != nil {
		ends = append(ends, fl.next)
	}
	ends = append(ends, fl.ret...)
	for _, e := range ends {
		x.runDefers(e, fr)
	}
	if len(fl.brk)+len(fl.cont) > 0 {
		panic(unsupported("break/continue escaping a function literal"))
	}
	if len(fl.pan) > 0 {
		x.pendingPanics = append(x.pendingPanics, fl.pan...)
	}
	m := x.h.Merge(ends)
	if m == nil {
		// the literal never returns normally
		s.Assume(x.c.False())
		res := make([]Value, sig.Results().Len())
		for i := range res {
			res[i] = x.h.zeroValue(sig.Results().At(i).Type())
		}
		return res
	}
	*s = *m
	res := make([]Value, len(fr.results))
	for i, rv := range fr.results {
		res[i] = s.vars[rv]
	}
	return res
}

func (x *fnv) resultVars(s *State, sig *types.Signature, fl *ast.FieldList) []*types.Var {
	var out []*types.Var
	if fl != nil {
		for _, fld := range fl.List {
			for _, nm := range fld.Names {
				if o, ok := x.info.Defs[nm].(*types.Var); ok {
					out = append(out, o)
				}
			}
		}
	}
	if len(out) != sig.Results().Len() {
		out = nil
		for i := 0; i < sig.Results().Len(); i++ {
			out = append(out, types.NewVar(token.NoPos, nil, fmt.Sprintf("$ret%d", i), sig.Results().At(i).Type()))
		}
	}
	for _, o := range out {
		x.declVar(s, o, x.h.zeroValue(o.Type()))
	}
	return out
}

// declVar binds a (new) local variable; address-taken variables get a heap cell.
func (x *fnv) declVar(s *State, o types.Object, v Value) {
	if o == nil {
		return
	}
	v = x.coerce(s, v, o.Type())
	if x.boxedVar[o] {
		r := x.h.alloc(s, "var_"+o.Name())
		x.h.StorePtr(s, o.Type(), r, v)
		s.vars[o] = Value{T: types.NewPointer(o.Type()), Term: r}
		return
	}
	v.T = o.Type()
	s.vars[o] = v
}

// forkPanic splits off a state in which the current call panicked (user callbacks may panic).
func (x *fnv) forkPanic(s *State, why string) {
	p := s.Clone()
	p.panicked = true
	x.pendingPanics = append(x.pendingPanics, p)
}

// ---- builtins -----------------------------------------------------------------------------------------

func (x *fnv) evalBuiltin(s *State, name string, call *ast.CallExpr) []Value {
	c := x.c
	one := func(v Value) []Value { return []Value{v} }
	switch name {
	case "len", "cap":
		v := x.eval(s, call.Args[0])
		it := types.Typ[types.Int]
		switch kindOf(v.T) {
		case kSlice:
			if name == "len" {
				return one(Value{T: it, Term: v.Sl.Len})
			}
			return one(Value{T: it, Term: v.Sl.Cap})
		case kString:
			return one(Value{T: it, Term: x.strLen(s, v.Term)})
		case kRef:
			if _, ok := v.T.Underlying().(*types.Map); ok {
				return one(Value{T: it, Term: x.h.MapCard(s, v.T, v.Term)})
			}
			if _, ok := v.T.Underlying().(*types.Chan); ok {
				r := c.App("chan_"+name, SInt, v.Term)
				s.Assume(c.Ge(r, c.Int(0)))
				return one(Value{T: it, Term: r})
			}
		}
		panic(unsupported("%s of %s", name, typeStr(v.T)))
	case "append":
		return one(x.evalAppend(s, call))
	case "make":
		t := x.typeOf(call.Args[0])
		switch u := t.Underlying().(type) {
		case *types.Slice:
			n := x.eval(s, call.Args[1]).Term
			cp := n
			if len(call.Args) > 2 {
				cp = x.eval(s, call.Args[2]).Term
			}
			x.safe(s, "makelen", c.And(c.Ge(n, c.Int(0)), c.Le(n, cp)), call.Pos())
			arr := x.h.alloc(s, "arr")
			zero := flatten(x.h.zeroValue(u.Elem()))
			for i, l := range leavesOf(u.Elem()) {
				rn := sliceRegion(u.Elem()) + l.Path
				s.mem[rn] = c.InitRef(x.h.region(s, rn, 2, l.Sort), arr, zero[i])
			}
			return one(Value{T: t, Sl: &SliceVal{Arr: arr, Off: c.Int(0), Len: n, Cap: cp}})
		case *types.Map:
			for _, a := range call.Args[1:] {
				x.eval(s, a)
			}
			return one(Value{T: t, Term: x.h.MapNew(s, t)})
		case *types.Chan:
			capT := c.Int(0)
			if len(call.Args) > 1 {
				capT = x.eval(s, call.Args[1]).Term
			}
			r := x.h.alloc(s, "chan")
			s.Assume(c.Eq(c.App("chan_cap", SInt, r), capT))
			return one(Value{T: t, Term: r})
		}
		panic(unsupported("make(%s)", typeStr(t)))
	case "new":
		t := x.typeOf(call.Args[0])
		r := x.h.alloc(s, "new")
		x.h.StorePtr(s, t, r, x.h.zeroValue(t))
		x.initMutexes(s, t, r)
		return one(Value{T: types.NewPointer(t), Term: r})
	case "delete":
		m := x.eval(s, call.Args[0])
		mt := m.T
		k := x.coerce(s, x.eval(s, call.Args[1]), mapType(mt).Key())
		for _, rm := range x.rangeMap {
			if typeStr(rm.mt) == typeStr(mt) {
				x.safe(s, "range_delete", c.Ne(m.Term, rm.ref), call.Pos())
			}
		}
		x.h.MapDelete(s, mt, m.Term, x.keyTerm(k))
		return nil
	case "copy":
		dst := x.eval(s, call.Args[0])
		src := x.eval(s, call.Args[1])
		if kindOf(src.T) != kSlice {
			panic(unsupported("copy from %s", typeStr(src.T)))
		}
		et := dst.T.Underlying().(*types.Slice).Elem()
		n := c.NameTerm("ncopy", c.Ite(c.Le(dst.Sl.Len, src.Sl.Len), dst.Sl.Len, src.Sl.Len))
		for _, l := range leavesOf(et) {
			rn := sliceRegion(et) + l.Path
			m := x.h.region(s, rn, 2, l.Sort)
			s.mem[rn] = c.Bulk(m, dst.Sl.Arr, dst.Sl.Off, m, src.Sl.Arr, src.Sl.Off, n)
		}
		return one(Value{T: types.Typ[types.Int], Term: n})
	case "panic":
		x.eval(s, call.Args[0])
		x.explicitPanic(s, call.Pos())
		return nil
	case "recover":
		fr := x.frames[len(x.frames)-1]
		_ = fr
		t := x.typeOf(call)
		if s.panicked {
			s.panicked = false
			v := x.c.Fresh("panicval", SInt)
			s.Assume(c.Gt(v, c.Int(0)))
			return one(Value{T: t, Term: v})
		}
		return one(Value{T: t, Term: c.Int(0)})
	case "close":
		ch := x.eval(s, call.Args[0])
		x.safe(s, "nilchan", c.Ne(ch.Term, c.Int(0)), call.Pos())
		return nil
	case "min", "max":
		acc := x.eval(s, call.Args[0])
		for _, a := range call.Args[1:] {
			v := x.eval(s, a)
			if name == "min" {
				acc = Value{T: acc.T, Term: c.Ite(c.Le(acc.Term, v.Term), acc.Term, v.Term)}
			} else {
				acc = Value{T: acc.T, Term: c.Ite(c.Ge(acc.Term, v.Term), acc.Term, v.Term)}
			}
		}
		return one(acc)
	case "print", "println":
		for _, a := range call.Args {
			x.eval(s, a)
		}
		return nil
	}
	panic(unsupported("builtin %s", name))
}

func (x *fnv) explicitPanic(s *State, pos token.Pos) {
	if x.fc != nil && x.fc.NoPanic || x.hasRecoverFrame() {
		p := s.Clone()
		p.panicked = true
		x.pendingPanics = append(x.pendingPanics, p)
	} else {
		x.oblige(s, "unreachable", fmt.Sprintf("panic.%d", x.nextOrd("unreachable")), x.c.False(), pos, nil)
	}
	s.Assume(x.c.False())
}

func (x *fnv) hasRecoverFrame() bool { return false }

func (x *fnv) evalAppend(s *State, call *ast.CallExpr) Value {
	c := x.c
	base := x.eval(s, call.Args[0])
	st := x.typeOf(call)
	if kindOf(st) != kSlice {
		panic(unsupported("append on %s", typeStr(st)))
	}
	base = x.coerce(s, base, st)
	et := st.Underlying().(*types.Slice).Elem()
	sl := base.Sl
	leaves := leavesOf(et)
	if call.Ellipsis.IsValid() {
		src := x.eval(s, call.Args[1])
		if kindOf(src.T) != kSlice {
			panic(unsupported("append(%s, %s...)", typeStr(st), typeStr(src.T)))
		}
		src = x.coerce(s, src, st)
		n := src.Sl.Len
		newLen := c.NameTerm("len", c.Add(sl.Len, n))
		inplace := c.NameTerm("inplace", c.Le(newLen, sl.Cap))
		narr := x.h.alloc(s, "arr")
		ncap := c.Fresh("cap", SInt)
		s.Assume(c.Ge(ncap, newLen))
		for _, l := range leaves {
			rn := sliceRegion(et) + l.Path
			m := x.h.region(s, rn, 2, l.Sort)
			m1 := c.Bulk(m, sl.Arr, c.Add(sl.Off, sl.Len), m, src.Sl.Arr, src.Sl.Off, n)
			m2 := c.Bulk(c.Bulk(m, narr, c.Int(0), m, sl.Arr, sl.Off, sl.Len), narr, sl.Len, m, src.Sl.Arr, src.Sl.Off, n)
			s.mem[rn] = c.MemIte(inplace, m1, m2)
		}
		return Value{T: st, Sl: &SliceVal{Arr: c.Ite(inplace, sl.Arr, narr), Off: c.Ite(inplace, sl.Off, c.Int(0)), Len: newLen, Cap: c.Ite(inplace, sl.Cap, ncap)}}
	}
	n := int64(len(call.Args) - 1)
	if n == 0 {
		return base
	}
	var elems []Value
	for _, a := range call.Args[1:] {
		elems = append(elems, x.coerce(s, x.eval(s, a), et))
	}
	newLen := c.Add(sl.Len, c.Int(n))
	inplace := c.NameTerm("inplace", c.Le(newLen, sl.Cap))
	narr := x.h.alloc(s, "arr")
	ncap := c.Fresh("cap", SInt)
	s.Assume(c.Ge(ncap, newLen))
	for li, l := range leaves {
		rn := sliceRegion(et) + l.Path
		m := x.h.region(s, rn, 2, l.Sort)
		m1 := m
		m2 := c.Bulk(m, narr, c.Int(0), m, sl.Arr, sl.Off, sl.Len)
		for j, ev := range elems {
			lv := flatten(ev)[li]
			m1 = c.Store(m1, sl.Arr, c.Add(c.Add(sl.Off, sl.Len), c.Int(int64(j))), lv)
			m2 = c.Store(m2, narr, c.Add(sl.Len, c.Int(int64(j))), lv)
		}
		s.mem[rn] = c.MemIte(inplace, m1, m2)
	}
	return Value{T: st, Sl: &SliceVal{Arr: c.Ite(inplace, sl.Arr, narr), Off: c.Ite(inplace, sl.Off, c.Int(0)), Len: newLen, Cap: c.Ite(inplace, sl.Cap, ncap)}}
}

// convert implements explicit conversions T(v).
func (x *fnv) convert(s *State, v Value, t types.Type, pos token.Pos) Value {
	sk, dk := kindOf(v.T), kindOf(t)
	switch {
	case dk == kIface:
		return x.coerce(s, v, t)
	case sk == dk && sk != kUnsupported:
		if dk == kInt && isUnsigned(t) && !isUnsigned(v.T) {
			x.assumeNote("A-INT: signed-to-unsigned conversion treated as identity")
		}
		return x.coerce(s, v, t)
	case isUntypedNil(v.T):
		return x.h.zeroValue(t)
	case dk == kString && sk == kInt, dk == kString && sk == kSlice, dk == kSlice && sk == kString:
		r := x.h.freshValue(s, t, "conv")
		return r
	case dk == kOpaque || sk == kOpaque:
		if v.Term != nil && dk != kStruct && dk != kSlice && dk != kBool {
			return Value{T: t, Term: x.c.App("conv_"+sanitize(typeStr(v.T))+"_to_"+sanitize(typeStr(t)), SInt, v.Term)}
		}
	case dk == kRef && sk == kRef:
		return Value{T: t, Term: v.Term, Fn: v.Fn}
	}
	panic(unsupported("conversion %s -> %s", typeStr(v.T), typeStr(t)))
}

func sortStrings(a []string) {
	for i := 1; i < len(a); i++ {
		for j := i; j > 0 && a[j] < a[j-1]; j-- {
			a[j], a[j-1] = a[j-1], a[j]
		}
	}
}

// ownerOf maps a cell reference of region rn to the object whose allocation time decides whether the cell
// existed at some earlier point: lock bits are addressed by mutex address, owned by the enclosing object.
func (x *fnv) ownerOf(rn string, ref *Term) *Term {
	if rn == lockRegionName || rn == onceRegionName {
		return x.c.App("muowner", SInt, ref)
	}
	return ref
}

// matchIn evaluates a modifies target on a cell of region rn.
func (x *fnv) matchIn(tg modTarget, rn string, ref, idx *Term) *Term {
	if tg.fresh {
		return tg.match(x.ownerOf(rn, ref), idx)
	}
	return tg.match(ref, idx)
}
