package vc

import (
	"fmt"
	"go/ast"
	"go/constant"
	"go/token"
	"go/types"
)

// goexpr.go: symbolic evaluation of Go expressions over the typed AST.

type callTarget struct {
	obj  *types.Func  // static function / method (possibly of an interface)
	recv *Value       // bound receiver for method values
	lit  *ast.FuncLit // function literal (inlined when called locally)
	sig  *types.Signature
}

func (x *fnv) typeOf(e ast.Expr) types.Type {
	if tv, ok := x.info.Types[e]; ok {
		return tv.Type
	}
	if id, ok := e.(*ast.Ident); ok {
		if o := x.info.ObjectOf(id); o != nil {
			return o.Type()
		}
	}
	return nil
}

func (x *fnv) constValue(s *State, t types.Type, cv constant.Value) Value {
	c := x.c
	switch kindOf(t) {
	case kBool:
		return Value{T: t, Term: c.Bool(constant.BoolVal(cv))}
	case kInt:
		if cv.Kind() == constant.Int || cv.Kind() == constant.Float {
			iv := constant.ToInt(cv)
			if iv.Kind() == constant.Int {
				return Value{T: t, Term: c.IntStr(iv.ExactString())}
			}
		}
	case kString:
		if cv.Kind() == constant.String {
			sv := constant.StringVal(cv)
			tm := x.strLit(sv)
			if sv != "" && !s.typed[tm] {
				s.typed[tm] = true
				s.Assume(c.Eq(c.App("strlen", SInt, tm), c.Int(int64(len(sv)))))
			}
			return Value{T: t, Term: tm}
		}
	case kOpaque:
		return Value{T: t, Term: c.Const("const_"+sanitize(cv.ExactString()), SInt)}
	case kIface:
		// constant converted to interface (e.g. any("x")): box the default-typed constant
		dt := types.Default(constTypeOf(cv))
		return x.coerce(s, x.constValue(s, dt, cv), t)
	}
	panic(unsupported("constant %s of type %s", cv.String(), typeStr(t)))
}

func constTypeOf(cv constant.Value) types.Type {
	switch cv.Kind() {
	case constant.Bool:
		return types.Typ[types.UntypedBool]
	case constant.String:
		return types.Typ[types.UntypedString]
	case constant.Int:
		return types.Typ[types.UntypedInt]
	case constant.Float:
		return types.Typ[types.UntypedFloat]
	}
	return types.Typ[types.UntypedInt]
}

func (x *fnv) eval(s *State, e ast.Expr) Value {
	vs := x.evalMulti(s, e)
	if len(vs) != 1 {
		panic(unsupported("expression %s yields %d values", types.ExprString(e), len(vs)))
	}
	return vs[0]
}

func (x *fnv) evalMulti(s *State, e ast.Expr) []Value {
	if tv, ok := x.info.Types[e]; ok && tv.Value != nil {
		t := tv.Type
		if b, ok := t.(*types.Basic); ok && b.Info()&types.IsUntyped != 0 {
			t = types.Default(t)
		}
		return []Value{x.constValue(s, t, tv.Value)}
	}
	switch e := e.(type) {
	case *ast.ParenExpr:
		return x.evalMulti(s, e.X)
	case *ast.CallExpr:
		return x.evalCall(s, e)
	case *ast.TypeAssertExpr:
		v, _ := x.evalTypeAssert(s, e, false)
		return []Value{v}
	}
	return []Value{x.eval1(s, e)}
}

func (x *fnv) globalLoc(o types.Object) loc {
	name := "G|" + o.Name()
	if o.Pkg() != nil {
		name = "G|" + o.Pkg().Name() + "." + o.Name()
	}
	return loc{kind: locHeap, T: o.Type(), pre: name, arity: 1, ref: x.c.Int(0)}
}

func (x *fnv) varLoc(o types.Object) loc {
	if v, ok := o.(*types.Var); ok && !v.IsField() && o.Parent() != nil && o.Pkg() != nil && o.Parent() == o.Pkg().Scope() {
		return x.globalLoc(o)
	}
	return loc{kind: locVar, T: o.Type(), obj: o}
}

func (x *fnv) readVar(s *State, o types.Object) Value {
	if x.boxedVar[o] {
		cell, ok := s.vars[o]
		if !ok {
			panic(unsupported("boxed variable %s not initialised", o.Name()))
		}
		return x.h.LoadPtr(s, o.Type(), cell.Term)
	}
	l := x.varLoc(o)
	if l.kind == locVar {
		if _, ok := s.vars[o]; !ok {
			// free variable of a function literal verified on its own: arbitrary value
			v := x.h.freshValue(s, o.Type(), "free_"+o.Name())
			s.vars[o] = v
			return v
		}
	}
	return x.loadLoc(s, l)
}

func (x *fnv) funcValue(o *types.Func, recv *Value) Value {
	name := "fn_" + o.FullName()
	t := x.c.DistinctConst("fn", name)
	sig, _ := o.Type().(*types.Signature)
	return Value{T: o.Type(), Term: t, Fn: &callTarget{obj: o, recv: recv, sig: sig}}
}

func (x *fnv) eval1(s *State, e ast.Expr) Value {
	c := x.c
	switch e := e.(type) {
	case *ast.Ident:
		o := x.info.ObjectOf(e)
		switch o := o.(type) {
		case *types.Nil:
			return Value{T: types.Typ[types.UntypedNil], Term: c.Int(0)}
		case *types.Var:
			return x.readVar(s, o)
		case *types.Func:
			return x.funcValue(o, nil)
		case *types.Const:
			return x.constValue(s, o.Type(), o.Val())
		}
		if e.Name == "_" {
			panic(unsupported("read of blank identifier"))
		}
		panic(unsupported("identifier %s (%T)", e.Name, o))
	case *ast.BasicLit:
		tv := x.info.Types[e]
		return x.constValue(s, types.Default(tv.Type), tv.Value)
	case *ast.FuncLit:
		t := x.c.Fresh("closure", SInt)
		s.Assume(c.Gt(t, c.Int(0)))
		sig, _ := x.typeOf(e).(*types.Signature)
		return Value{T: x.typeOf(e), Term: t, Fn: &callTarget{lit: e, sig: sig}}
	case *ast.CompositeLit:
		return x.evalCompositeLit(s, e)
	case *ast.SelectorExpr:
		return x.evalSelector(s, e)
	case *ast.IndexExpr:
		return x.evalIndex(s, e)
	case *ast.IndexListExpr:
		return x.eval1(s, e.X)
	case *ast.SliceExpr:
		return x.evalSliceExpr(s, e)
	case *ast.StarExpr:
		p := x.eval(s, e.X)
		x.safe(s, "nil", c.Ne(p.Term, c.Int(0)), e.Pos())
		pt := p.T.Underlying().(*types.Pointer)
		return x.h.LoadPtr(s, pt.Elem(), p.Term)
	case *ast.UnaryExpr:
		return x.evalUnary(s, e)
	case *ast.BinaryExpr:
		return x.evalBinary(s, e)
	}
	panic(unsupported("expression %T (%s)", e, types.ExprString(e)))
}

func (x *fnv) evalSelector(s *State, e *ast.SelectorExpr) Value {
	if sel, ok := x.info.Selections[e]; ok {
		switch sel.Kind() {
		case types.FieldVal:
			base := x.eval(s, e.X)
			return x.selectPath(s, base, sel.Index(), e.Pos())
		case types.MethodVal:
			recv := x.eval(s, e.X)
			fn := sel.Obj().(*types.Func)
			// adjust receiver through embedded fields
			idx := sel.Index()
			if len(idx) > 1 {
				recv = x.selectPath(s, recv, idx[:len(idx)-1], e.Pos())
			}
			return x.funcValue(fn, &recv)
		}
		panic(unsupported("method expression %s", types.ExprString(e)))
	}
	// qualified identifier
	o := x.info.ObjectOf(e.Sel)
	switch o := o.(type) {
	case *types.Var:
		return x.loadLoc(s, x.globalLoc(o))
	case *types.Func:
		return x.funcValue(o, nil)
	case *types.Const:
		return x.constValue(s, o.Type(), o.Val())
	}
	panic(unsupported("qualified identifier %s", types.ExprString(e)))
}

// selectPath follows a field index path from v, dereferencing pointers (with nil obligations).
func (x *fnv) selectPath(s *State, v Value, path []int, pos token.Pos) Value {
	c := x.c
	for _, i := range path {
		if pt, ok := v.T.Underlying().(*types.Pointer); ok {
			x.safe(s, "nil", c.Ne(v.Term, c.Int(0)), pos)
			st := pt.Elem().Underlying().(*types.Struct)
			v = x.h.ReadField(s, pt.Elem(), st.Field(i), v.Term)
			continue
		}
		if kindOf(v.T) != kStruct {
			panic(unsupported("field selection on %s", typeStr(v.T)))
		}
		f := v.Fields[i]
		if f.T == nil {
			f.T = v.T.Underlying().(*types.Struct).Field(i).Type()
		}
		v = f
	}
	return v
}

func (x *fnv) evalIndex(s *State, e *ast.IndexExpr) Value {
	c := x.c
	// generic instantiation f[T]
	if tv, ok := x.info.Types[e.Index]; ok && tv.IsType() {
		return x.eval1(s, e.X)
	}
	bt := x.typeOf(e.X)
	switch u := bt.Underlying().(type) {
	case *types.Slice:
		b := x.eval(s, e.X)
		i := x.eval(s, e.Index)
		x.safe(s, "index", c.And(c.Le(c.Int(0), i.Term), c.Lt(i.Term, b.Sl.Len)), e.Pos())
		return x.h.ReadElem(s, u.Elem(), b.Sl.Arr, c.Add(b.Sl.Off, i.Term))
	case *types.Map:
		m := x.eval(s, e.X)
		k := x.coerce(s, x.eval(s, e.Index), u.Key())
		v, _ := x.h.MapLookup(s, bt, m.Term, x.keyTerm(k))
		return v
	case *types.Basic:
		if u.Info()&types.IsString != 0 {
			b := x.eval(s, e.X)
			i := x.eval(s, e.Index)
			x.safe(s, "index", c.And(c.Le(c.Int(0), i.Term), c.Lt(i.Term, x.strLen(s, b.Term))), e.Pos())
			r := c.App("strbyte", SInt, b.Term, i.Term)
			return Value{T: types.Typ[types.Uint8], Term: r}
		}
	}
	panic(unsupported("index expression on %s", typeStr(bt)))
}

// keyTerm returns the scalar used as map key.
func (x *fnv) keyTerm(k Value) *Term {
	if k.Term == nil {
		panic(unsupported("composite map key of type %s", typeStr(k.T)))
	}
	if k.Term.Sort == SBool {
		return x.c.Ite(k.Term, x.c.Int(1), x.c.Int(0))
	}
	return k.Term
}

func (x *fnv) evalSliceExpr(s *State, e *ast.SliceExpr) Value {
	c := x.c
	bt := x.typeOf(e.X)
	b := x.eval(s, e.X)
	if kindOf(bt) == kString {
		var lo, hi *Term = c.Int(0), x.strLen(s, b.Term)
		if e.Low != nil {
			lo = x.eval(s, e.Low).Term
		}
		if e.High != nil {
			hi = x.eval(s, e.High).Term
		}
		x.safe(s, "slice", c.And(c.Le(c.Int(0), lo), c.Le(lo, hi), c.Le(hi, x.strLen(s, b.Term))), e.Pos())
		r := c.App("substr", SInt, b.Term, lo, hi)
		return Value{T: bt, Term: r}
	}
	if kindOf(bt) != kSlice {
		panic(unsupported("slice expression on %s", typeStr(bt)))
	}
	lo, hi, mx := c.Int(0), b.Sl.Len, b.Sl.Cap
	if e.Low != nil {
		lo = x.eval(s, e.Low).Term
	}
	if e.High != nil {
		hi = x.eval(s, e.High).Term
	}
	if e.Max != nil {
		mx = x.eval(s, e.Max).Term
	}
	x.safe(s, "slice", c.And(c.Le(c.Int(0), lo), c.Le(lo, hi), c.Le(hi, mx), c.Le(mx, b.Sl.Cap)), e.Pos())
	return Value{T: b.T, Sl: &SliceVal{Arr: b.Sl.Arr, Off: c.Add(b.Sl.Off, lo), Len: c.Sub(hi, lo), Cap: c.Sub(mx, lo)}}
}

func (x *fnv) evalUnary(s *State, e *ast.UnaryExpr) Value {
	c := x.c
	switch e.Op {
	case token.AND:
		switch in := ast.Unparen(e.X).(type) {
		case *ast.CompositeLit:
			v := x.evalCompositeLit(s, in)
			r := x.h.alloc(s, "obj")
			x.h.StorePtr(s, v.T, r, v)
			x.initMutexes(s, v.T, r)
			return Value{T: x.typeOf(e), Term: r}
		case *ast.Ident:
			o := x.info.ObjectOf(in)
			if x.boxedVar[o] {
				return Value{T: x.typeOf(e), Term: s.vars[o].Term}
			}
		}
		// &x.mu for a mutex field: the address of the mutex (only Lock/Unlock go through it)
		if se, ok := ast.Unparen(e.X).(*ast.SelectorExpr); ok && isMutexType(x.typeOf(se)) {
			owner := x.eval(s, se.X)
			if pt, ok := owner.T.Underlying().(*types.Pointer); ok {
				x.safe(s, "nil", c.Not(c.Eq(owner.Term, c.Int(0))), e.Pos())
				return Value{T: x.typeOf(e), Term: x.muAddr(s, pt.Elem(), se.Sel.Name, owner.Term)}
			}
		}
		// &s[i]: an interior pointer into a slice cell. It is represented by an injective address term;
		// loads and stores through it are not connected to the slice cell (functions that need that are
		// given trusted contracts), so it may only be passed on.
		if ix, ok := ast.Unparen(e.X).(*ast.IndexExpr); ok {
			if st, ok := x.typeOf(ix.X).Underlying().(*types.Slice); ok {
				b := x.eval(s, ix.X)
				i := x.eval(s, ix.Index)
				x.safe(s, "index", c.And(c.Le(c.Int(0), i.Term), c.Lt(i.Term, b.Sl.Len)), e.Pos())
				a := c.App("elemaddr_"+typeStr(st.Elem()), SInt, b.Sl.Arr, c.Add(b.Sl.Off, i.Term))
				s.Assume(c.Gt(a, c.Int(0)))
				x.assumeNote("interior pointers (&s[i]) are opaque addresses: accesses through them are not tracked")
				return Value{T: x.typeOf(e), Term: a}
			}
		}
		panic(unsupported("address-of %s", types.ExprString(e.X)))
	case token.NOT:
		v := x.eval(s, e.X)
		return Value{T: v.T, Term: c.Not(v.Term)}
	case token.SUB:
		v := x.eval(s, e.X)
		return Value{T: v.T, Term: c.Neg(v.Term)}
	case token.ADD:
		return x.eval(s, e.X)
	case token.ARROW:
		ch := x.eval(s, e.X)
		return x.chanRecv(s, ch, e.Pos(), types.ExprString(e.X))
	}
	panic(unsupported("unary operator %s", e.Op))
}

func (x *fnv) evalBinary(s *State, e *ast.BinaryExpr) Value {
	c := x.c
	rt := x.typeOf(e)
	switch e.Op {
	case token.LAND, token.LOR:
		l := x.eval(s, e.X)
		if !hasCall(e.Y) {
			var r Value
			g := l.Term
			if e.Op == token.LOR {
				g = c.Not(g)
			}
			x.withAssumption(s, g, func() { r = x.eval(s, e.Y) })
			if e.Op == token.LAND {
				return Value{T: rt, Term: c.And(l.Term, r.Term)}
			}
			return Value{T: rt, Term: c.Or(l.Term, r.Term)}
		}
		// right operand has effects: fork
		g := l.Term
		if e.Op == token.LOR {
			g = c.Not(g)
		}
		s1 := s.Clone()
		s1.Assume(g)
		r := x.eval(s1, e.Y)
		s2 := s.Clone()
		s2.Assume(c.Not(g))
		m := x.h.Merge([]*State{s1, s2})
		*s = *m
		if e.Op == token.LAND {
			return Value{T: rt, Term: c.And(l.Term, r.Term)}
		}
		return Value{T: rt, Term: c.Or(l.Term, r.Term)}
	}
	l := x.eval(s, e.X)
	r := x.eval(s, e.Y)
	return x.binop(s, e.Op.String(), l, r, rt, e.Pos())
}

func hasCall(e ast.Expr) bool {
	found := false
	ast.Inspect(e, func(n ast.Node) bool {
		if _, ok := n.(*ast.CallExpr); ok {
			found = true
		}
		if u, ok := n.(*ast.UnaryExpr); ok && u.Op == token.ARROW {
			found = true
		}
		return !found
	})
	return found
}

// withAssumption evaluates f with g temporarily added to the path condition (obligations raised
// inside are guarded by g).
func (x *fnv) withAssumption(s *State, g *Term, f func()) {
	n := len(s.pc)
	saved := make(map[*Term]bool, len(s.typed))
	for k := range s.typed {
		saved[k] = true
	}
	s.Assume(g)
	f()
	// keep facts that do not depend on g? They were added after g; re-add them guarded by g.
	extra := s.pc[n:]
	s.pc = s.pc[:n]
	var keep []*Term
	for _, a := range extra {
		if a != g {
			keep = append(keep, a)
		}
	}
	if len(keep) > 0 {
		s.pc = append(s.pc, x.c.Implies(g, x.c.And(keep...)))
	}
	s.typed = saved
}

// binop implements arithmetic, comparison and string operators on values.
func (x *fnv) binop(s *State, op string, l, r Value, rt types.Type, pos token.Pos) Value {
	c := x.c
	switch op {
	case "==", "!=":
		var eq *Term
		lk, rk := kindOf(l.T), kindOf(r.T)
		switch {
		case isUntypedNil(l.T) || l.T == nil:
			eq = x.isNil(r)
		case isUntypedNil(r.T) || r.T == nil:
			eq = x.isNil(l)
		case lk == kIface && rk != kIface:
			eq = c.Eq(l.Term, x.box(s, r))
		case rk == kIface && lk != kIface:
			eq = c.Eq(x.box(s, l), r.Term)
		default:
			eq = x.h.eqValue(l, r)
		}
		if op == "!=" {
			eq = c.Not(eq)
		}
		return Value{T: rt, Term: eq}
	case "<", "<=", ">", ">=":
		if kindOf(l.T) == kString || kindOf(l.T) == kOpaque {
			t := c.App("lt_"+op2name(op)+"_"+kindName(l.T), SBool, l.Term, r.Term)
			return Value{T: rt, Term: t}
		}
		var t *Term
		switch op {
		case "<":
			t = c.Lt(l.Term, r.Term)
		case "<=":
			t = c.Le(l.Term, r.Term)
		case ">":
			t = c.Gt(l.Term, r.Term)
		case ">=":
			t = c.Ge(l.Term, r.Term)
		}
		return Value{T: rt, Term: t}
	}
	if rt == nil {
		rt = l.T
	}
	if kindOf(rt) == kString && op == "+" {
		return Value{T: rt, Term: x.strConcat(s, l.Term, r.Term)}
	}
	if kindOf(rt) == kOpaque {
		return Value{T: rt, Term: c.App("fop_"+op2name(op), SInt, l.Term, r.Term)}
	}
	if kindOf(rt) != kInt {
		panic(unsupported("operator %s on %s", op, typeStr(rt)))
	}
	var t *Term
	switch op {
	case "+":
		t = c.Add(l.Term, r.Term)
	case "-":
		t = c.Sub(l.Term, r.Term)
		if isUnsigned(rt) {
			// unsigned subtraction must not wrap (A-INT would hide it): make it an obligation
			x.safe(s, "unsigned_underflow", c.Ge(t, c.Int(0)), pos)
		}
	case "*":
		t = c.Mul(l.Term, r.Term)
	case "/":
		x.safe(s, "divzero", c.Ne(r.Term, c.Int(0)), pos)
		t = x.goDiv(l.Term, r.Term)
	case "%":
		x.safe(s, "divzero", c.Ne(r.Term, c.Int(0)), pos)
		t = c.Sub(l.Term, c.Mul(r.Term, x.goDiv(l.Term, r.Term)))
	default:
		t = c.App("bitop_"+op2name(op), SInt, l.Term, r.Term)
	}
	return Value{T: rt, Term: t}
}

// goDiv is truncated division (Go semantics) expressed with SMT's floor division.
func (x *fnv) goDiv(a, b *Term) *Term {
	c := x.c
	// for a >= 0 SMT div with positive/negative divisor truncates correctly; for a < 0 adjust
	q := c.Div(a, b)
	return c.Ite(c.Or(c.Ge(a, c.Int(0)), c.Eq(c.Mul(q, b), a)), q, c.Ite(c.Gt(b, c.Int(0)), c.Add(q, c.Int(1)), c.Sub(q, c.Int(1))))
}

func op2name(op string) string {
	switch op {
	case "<":
		return "lt"
	case "<=":
		return "le"
	case ">":
		return "gt"
	case ">=":
		return "ge"
	case "+":
		return "add"
	case "-":
		return "sub"
	case "*":
		return "mul"
	case "/":
		return "div"
	case "%":
		return "mod"
	case "&":
		return "and"
	case "|":
		return "or"
	case "^":
		return "xor"
	case "<<":
		return "shl"
	case ">>":
		return "shr"
	case "&^":
		return "andnot"
	}
	return "op"
}

func kindName(t types.Type) string {
	if kindOf(t) == kString {
		return "str"
	}
	return "opq"
}

func (x *fnv) isNil(v Value) *Term {
	c := x.c
	if v.Sl != nil {
		return c.Eq(v.Sl.Arr, c.Int(0))
	}
	if v.Term == nil {
		panic(unsupported("nil comparison on %s", typeStr(v.T)))
	}
	return c.Eq(v.Term, c.Int(0))
}

func (x *fnv) evalCompositeLit(s *State, e *ast.CompositeLit) Value {
	return x.evalCompositeLitAs(s, e, x.typeOf(e))
}

// evalCompositeLitAs evaluates a literal whose type is given by the context (elided element types).
func (x *fnv) evalCompositeLitAs(s *State, e *ast.CompositeLit, t types.Type) Value {
	c := x.c
	switch u := t.Underlying().(type) {
	case *types.Struct:
		v := x.h.zeroValue(t)
		for i, el := range e.Elts {
			if kv, ok := el.(*ast.KeyValueExpr); ok {
				name := kv.Key.(*ast.Ident).Name
				for j := 0; j < u.NumFields(); j++ {
					if u.Field(j).Name() == name {
						v.Fields[j] = x.coerce(s, x.evalElt(s, kv.Value, u.Field(j).Type()), u.Field(j).Type())
					}
				}
			} else {
				v.Fields[i] = x.coerce(s, x.evalElt(s, el, u.Field(i).Type()), u.Field(i).Type())
			}
		}
		return v
	case *types.Slice:
		n := int64(len(e.Elts))
		arr := x.h.alloc(s, "arr")
		for i, el := range e.Elts {
			if _, ok := el.(*ast.KeyValueExpr); ok {
				panic(unsupported("keyed slice literal"))
			}
			ev := x.coerce(s, x.evalElt(s, el, u.Elem()), u.Elem())
			x.h.WriteElem(s, u.Elem(), arr, c.Int(int64(i)), ev)
		}
		return Value{T: t, Sl: &SliceVal{Arr: arr, Off: c.Int(0), Len: c.Int(n), Cap: c.Int(n)}}
	case *types.Map:
		m := x.h.MapNew(s, t)
		for _, el := range e.Elts {
			kv := el.(*ast.KeyValueExpr)
			k := x.coerce(s, x.evalElt(s, kv.Key, u.Key()), u.Key())
			v := x.coerce(s, x.evalElt(s, kv.Value, u.Elem()), u.Elem())
			x.h.MapStore(s, t, m, x.keyTerm(k), v)
		}
		return Value{T: t, Term: m}
	}
	panic(unsupported("composite literal of type %s", typeStr(t)))
}

// evalElt evaluates a composite-literal element, allowing elided types ({...} and &{...}).
func (x *fnv) evalElt(s *State, e ast.Expr, want types.Type) Value {
	if cl, ok := e.(*ast.CompositeLit); ok && cl.Type == nil {
		if pt, ok := want.Underlying().(*types.Pointer); ok {
			v := x.evalCompositeLitAs(s, cl, pt.Elem())
			r := x.h.alloc(s, "obj")
			x.h.StorePtr(s, pt.Elem(), r, v)
			return Value{T: want, Term: r}
		}
	}
	return x.eval(s, e)
}

func (x *fnv) evalTypeAssert(s *State, e *ast.TypeAssertExpr, commaOk bool) (Value, *Term) {
	v := x.eval(s, e.X)
	t := x.typeOf(e.Type)
	if kindOf(v.T) != kIface {
		panic(unsupported("type assertion on non-interface %s", typeStr(v.T)))
	}
	ok := x.isType(s, v.Term, t)
	if !commaOk {
		x.safe(s, "typeassert", ok, e.Pos())
	}
	var res Value
	if kindOf(t) == kIface {
		res = Value{T: t, Term: v.Term}
	} else {
		res = x.unbox(s, v.Term, t)
		// surjectivity: a value of dynamic type t is the box of its payload
		if !v.Term.HasBVar() {
			rb := x.c.App("box_"+typeStr(t), SInt, flatten(res)...)
			s.Assume(x.c.Implies(ok, x.c.Eq(rb, v.Term)))
		}
	}
	if commaOk {
		res = x.h.iteValue(ok, res, x.h.zeroValue(t))
	}
	x.h.assumeTyped(s, res)
	return res, ok
}

// lvalue resolves an assignable expression to a location.
func (x *fnv) lvalue(s *State, e ast.Expr) loc {
	c := x.c
	switch e := e.(type) {
	case *ast.ParenExpr:
		return x.lvalue(s, e.X)
	case *ast.Ident:
		if e.Name == "_" {
			return loc{kind: locBlank}
		}
		o := x.info.ObjectOf(e)
		if x.boxedVar[o] {
			cell := s.vars[o]
			return x.derefLoc(o.Type(), cell.Term)
		}
		return x.varLoc(o)
	case *ast.StarExpr:
		p := x.eval(s, e.X)
		x.safe(s, "nil", c.Ne(p.Term, c.Int(0)), e.Pos())
		return x.derefLoc(p.T.Underlying().(*types.Pointer).Elem(), p.Term)
	case *ast.SelectorExpr:
		sel, ok := x.info.Selections[e]
		if !ok {
			o := x.info.ObjectOf(e.Sel)
			if v, ok := o.(*types.Var); ok {
				return x.globalLoc(v)
			}
			panic(unsupported("assignment to %s", types.ExprString(e)))
		}
		var cur loc
		bt := x.typeOf(e.X)
		if pt, ok := bt.Underlying().(*types.Pointer); ok {
			p := x.eval(s, e.X)
			x.safe(s, "nil", c.Ne(p.Term, c.Int(0)), e.Pos())
			cur = x.derefLoc(pt.Elem(), p.Term)
		} else {
			cur = x.lvalue(s, e.X)
		}
		path := sel.Index()
		for n, i := range path {
			st, ok := cur.T.Underlying().(*types.Struct)
			if !ok {
				panic(unsupported("field path through %s", typeStr(cur.T)))
			}
			cur = x.fieldLoc(cur, st, i)
			if n < len(path)-1 {
				if pt, ok := cur.T.Underlying().(*types.Pointer); ok {
					p := x.loadLoc(s, cur)
					x.safe(s, "nil", c.Ne(p.Term, c.Int(0)), e.Pos())
					cur = x.derefLoc(pt.Elem(), p.Term)
				}
			}
		}
		return cur
	case *ast.IndexExpr:
		bt := x.typeOf(e.X)
		switch u := bt.Underlying().(type) {
		case *types.Slice:
			b := x.eval(s, e.X)
			i := x.eval(s, e.Index)
			x.safe(s, "index", c.And(c.Le(c.Int(0), i.Term), c.Lt(i.Term, b.Sl.Len)), e.Pos())
			return loc{kind: locHeap, T: u.Elem(), pre: sliceRegion(u.Elem()), arity: 2, ref: b.Sl.Arr, idx: c.Add(b.Sl.Off, i.Term)}
		case *types.Map:
			m := x.eval(s, e.X)
			k := x.coerce(s, x.eval(s, e.Index), u.Key())
			return loc{kind: locMap, T: u.Elem(), mt: bt, ref: m.Term, idx: x.keyTerm(k)}
		}
	}
	panic(unsupported("assignment target %s", types.ExprString(e)))
}

func (x *fnv) derefLoc(elem types.Type, ref *Term) loc {
	if kindOf(elem) == kStruct {
		return loc{kind: locDeref, T: elem, ref: ref}
	}
	return loc{kind: locHeap, T: elem, pre: cellRegion(elem), arity: 1, ref: ref}
}

var _ = fmt.Sprintf

// initMutexes: the mutex fields of a freshly allocated struct are unlocked (the zero Mutex).
func (x *fnv) initMutexes(s *State, T types.Type, r *Term) {
	st, ok := T.Underlying().(*types.Struct)
	if !ok {
		return
	}
	for i := 0; i < st.NumFields(); i++ {
		f := st.Field(i)
		if isMutexType(f.Type()) {
			rn := lockRegionName
			if typeStr(f.Type()) == "sync.Once" {
				rn = onceRegionName
			}
			m := x.h.region(s, rn, 1, SBool)
			s.mem[rn] = x.c.Store(m, x.muAddr(s, T, f.Name(), r), nil, x.c.False())
		}
	}
}
