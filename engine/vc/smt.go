package vc

import (
	"bytes"
	"context"
	"os"
	"os/exec"
	"path/filepath"
	"sort"
	"strings"
	"sync"
	"sync/atomic"
	"time"
)

// smt.go: discharging obligations by racing the installed SMT solvers.

type SolverAnswer struct {
	Solver string  `json:"solver"`
	Status string  `json:"status"` // unsat | sat | unknown | timeout | error
	Secs   float64 `json:"secs"`
	Output string  `json:"output,omitempty"`
}

type Verdict struct {
	Status  string         `json:"status"` // discharged | failed | undischarged | disagreement | covered | vacuous
	Answers []SolverAnswer `json:"answers"`
	Model   string         `json:"model,omitempty"`
	By      string         `json:"by,omitempty"`
	Secs    float64        `json:"secs"`
	Phase2  *SolverAnswer  `json:"model_search,omitempty"` // quantifier-free re-run used to obtain a candidate model
}

const smtHeader = "(set-option :produce-models true)\n(set-logic ALL)\n"

type solverSpec struct {
	name string
	argv func(file string, timeout time.Duration) []string
}

var solverSpecs = []solverSpec{
	{"z3-5.1.0", func(f string, t time.Duration) []string {
		return []string{"z3-new", "-T:" + itoa(int(t.Seconds())+1), "-t:" + itoa(int(t.Milliseconds())), f}
	}},
	{"z3-4.8.12", func(f string, t time.Duration) []string {
		return []string{"z3", "-T:" + itoa(int(t.Seconds())+1), "-t:" + itoa(int(t.Milliseconds())), f}
	}},
	{"cvc5-1.0.3", func(f string, t time.Duration) []string {
		return []string{"cvc5", "--lang=smt2", "--tlimit=" + itoa(int(t.Milliseconds())), f}
	}},
}

func runSolver(ctx context.Context, sp solverSpec, file string, timeout time.Duration) SolverAnswer {
	start := time.Now()
	cctx, cancel := context.WithTimeout(ctx, timeout+2*time.Second)
	defer cancel()
	argv := sp.argv(file, timeout)
	cmd := exec.CommandContext(cctx, argv[0], argv[1:]...)
	var out bytes.Buffer
	cmd.Stdout = &out
	cmd.Stderr = &out
	err := cmd.Run()
	if os.Getenv("GOVC_DEBUG") != "" {
		println(sp.name, time.Since(start).String())
	}
	ans := SolverAnswer{Solver: sp.name, Secs: time.Since(start).Seconds()}
	text := out.String()
	first := strings.TrimSpace(strings.SplitN(strings.TrimSpace(text), "\n", 2)[0])
	switch first {
	case "unsat", "sat", "unknown":
		ans.Status = first
	case "timeout":
		ans.Status = "timeout"
	default:
		switch {
		case cctx.Err() != nil:
			ans.Status = "timeout"
		case strings.Contains(text, "interrupted by timeout") || strings.Contains(text, "timeout"):
			ans.Status = "timeout"
		case err != nil || first != "":
			ans.Status = "error"
		default:
			ans.Status = "unknown"
		}
	}
	if ans.Status != "unsat" {
		if len(text) > 6000 {
			text = text[:6000] + "\n...[truncated]"
		}
		ans.Output = text
	}
	return ans
}

// race runs the solvers concurrently on one query file. It stops as soon as one solver gives a
// definitive answer unless all is set (thorough tier: collect every answer to detect disagreement).
func raceLocal(file string, timeout time.Duration, all bool, only []string) []SolverAnswer {
	ctx, cancel := context.WithCancel(context.Background())
	defer cancel()
	var specs []solverSpec
	for _, sp := range solverSpecs {
		if len(only) == 0 {
			specs = append(specs, sp)
			continue
		}
		for _, o := range only {
			if o == sp.name {
				specs = append(specs, sp)
			}
		}
	}
	ch := make(chan SolverAnswer, len(specs))
	var wg sync.WaitGroup
	for _, sp := range specs {
		wg.Add(1)
		go func(sp solverSpec) {
			defer wg.Done()
			ch <- runSolver(ctx, sp, file, timeout)
		}(sp)
	}
	go func() { wg.Wait(); close(ch) }()
	var out []SolverAnswer
	graceStarted := false
	for a := range ch {
		out = append(out, a)
		if a.Status == "unsat" || a.Status == "sat" {
			if !all {
				cancel()
				break
			}
			// thorough: the other solvers get a short grace period to agree or disagree
			if !graceStarted {
				graceStarted = true
				go func() {
					time.Sleep(4 * time.Second)
					cancel()
				}()
			}
		}
	}
	return out
}

// Discharge decides one obligation. dir receives the query files.
func Discharge(o *Obligation, dir string, timeout time.Duration, thorough bool) Verdict {
	start := time.Now()
	if !o.Cover && o.Goal != nil && o.Goal.IsTrue() {
		return Verdict{Status: "discharged", By: "by-construction"}
	}
	// several instances of one obligation name (one per path through the function) are discharged concurrently:
	// each gets its own query file (they used to share one, and a solver could read a file another worker was
	// rewriting: a parse error, reported as undischarged)
	base := filepath.Join(dir, sanitizeFile(o.Name)+"-"+itoa(int(atomic.AddInt64(&queryFileSeq, 1))))
	file := base + ".smt2"
	script := o.Script(smtHeader)
	if err := os.WriteFile(file, []byte(script), 0o644); err != nil {
		return Verdict{Status: "undischarged", Answers: []SolverAnswer{{Solver: "io", Status: "error", Output: err.Error()}}}
	}
	var answers []SolverAnswer
	if !thorough {
		// stage 1: the newest z3 alone with a short limit; most queries end here
		short := 3 * time.Second
		if short > timeout {
			short = timeout
		}
		answers = race(file, short, false, []string{"z3-5.1.0"})
		if !decided(answers) {
			answers = append(answers, race(file, timeout, false, nil)...)
		}
	} else {
		answers = race(file, timeout, true, nil)
	}
	if !decided(answers) && !o.Cover {
		// nobody answered: a loaded machine, a solver that failed to start, or a query near the limit. One more round
		// with twice the time before the obligation is reported as undischarged (a `sat` answer is never retried)
		retry := 2 * timeout
		if retry > 60*time.Second {
			retry = 60 * time.Second
		}
		time.Sleep(200 * time.Millisecond)
		answers = append(answers, raceLocal(file, retry, true, nil)...) // in-process exec: independent of the helper processes
		if !decided(answers) && allErrors(answers) {
			// every solver process failed outright (could not start, crashed): not an answer about the obligation
			time.Sleep(3 * time.Second)
			answers = append(answers, raceLocal(file, retry, true, nil)...)
		}
	}
	v := Verdict{Answers: answers}
	nUnsat, nSat := 0, 0
	for _, a := range answers {
		switch a.Status {
		case "unsat":
			nUnsat++
			if v.By == "" {
				v.By = a.Solver
			}
		case "sat":
			nSat++
		}
	}
	switch {
	case o.Cover:
		switch {
		case nSat > 0 && nUnsat > 0:
			v.Status = "disagreement"
		case nSat > 0:
			v.Status = "covered"
			v.By = firstWith(answers, "sat")
		case nUnsat > 0:
			v.Status = "vacuous"
		default:
			// satisfiability of the assumptions could not be established (quantifiers): not a failure
			v.Status = "covered-unknown"
		}
	case nUnsat > 0 && nSat > 0:
		v.Status = "disagreement"
	case nUnsat > 0:
		v.Status = "discharged"
	case nSat > 0:
		v.Status = "failed"
		v.By = firstWith(answers, "sat")
		v.Model = counterModel(file, script, timeout)
		if v.Model == "" {
			v.Model = modelOf(answers)
		}
	default:
		v.Status = "undischarged"
		// model search without the quantified assumptions (candidate only; replay decides)
		if hasQuantAssumption(o) {
			f2 := base + ".noquant.smt2"
			os.WriteFile(f2, []byte(o.ScriptNoQuant(smtHeader)), 0o644)
			as := race(f2, timeout/2+time.Second, false, nil)
			for i := range as {
				if as[i].Status == "sat" {
					v.Phase2 = &as[i]
					v.Model = as[i].Output
					break
				}
			}
		}
	}
	v.Secs = time.Since(start).Seconds()
	return v
}

func hasQuantAssumption(o *Obligation) bool {
	for _, a := range o.Assumptions {
		if a.HasQuant() {
			return true
		}
	}
	return false
}

func decidedUnsat(as []SolverAnswer) bool {
	for _, a := range as {
		if a.Status == "unsat" {
			return true
		}
	}
	return false
}

func decided(as []SolverAnswer) bool {
	for _, a := range as {
		if a.Status == "unsat" || a.Status == "sat" {
			return true
		}
	}
	return false
}

func firstWith(as []SolverAnswer, st string) string {
	for _, a := range as {
		if a.Status == st {
			return a.Solver
		}
	}
	return ""
}

func modelOf(as []SolverAnswer) string {
	for _, a := range as {
		if a.Status == "sat" {
			return a.Output
		}
	}
	return ""
}

func sanitizeFile(s string) string {
	var sb strings.Builder
	for _, r := range s {
		switch {
		case r >= 'a' && r <= 'z', r >= 'A' && r <= 'Z', r >= '0' && r <= '9', r == '_', r == '.', r == '-', r == '#':
			sb.WriteRune(r)
		default:
			sb.WriteByte('_')
		}
	}
	out := sb.String()
	if len(out) > 180 {
		out = out[:180]
	}
	return out
}

// counterModel asks the newest z3 for the values of the obligation's input symbols (parameters `in_*`, loop-head
// values `loop_*`, call results) in a counterexample: the part of the model a human can map back to the code.
func counterModel(file, script string, timeout time.Duration) string {
	var names []string
	seen := map[string]bool{}
	for _, ln := range strings.Split(script, "\n") {
		if !strings.HasPrefix(ln, "(declare-fun ") && !strings.HasPrefix(ln, "(declare-const ") {
			continue
		}
		f := strings.Fields(ln)
		if len(f) < 3 {
			continue
		}
		n := f[1]
		// constants only: (declare-fun name () Sort)
		if strings.HasPrefix(ln, "(declare-fun ") && !strings.Contains(ln, " () ") {
			continue
		}
		if seen[n] {
			continue
		}
		if strings.HasPrefix(n, "in_") || strings.HasPrefix(n, "loop_") || strings.Contains(n, "_r0") || strings.Contains(n, "_r1") || strings.HasPrefix(n, "|in_") {
			seen[n] = true
			names = append(names, n)
		}
	}
	if len(names) == 0 {
		return ""
	}
	// parameters first, then loop-head values, then call results
	rank := func(n string) int {
		switch {
		case strings.HasPrefix(n, "in_") || strings.HasPrefix(n, "|in_"):
			return 0
		case strings.HasPrefix(n, "loop_"):
			return 1
		}
		return 2
	}
	sort.SliceStable(names, func(i, j int) bool { return rank(names[i]) < rank(names[j]) })
	if len(names) > 60 {
		names = names[:60]
	}
	f2 := strings.TrimSuffix(file, ".smt2") + ".model.smt2"
	body := script + "(get-value (" + strings.Join(names, " ") + "))\n"
	if err := os.WriteFile(f2, []byte(body), 0o644); err != nil {
		return ""
	}
	t := timeout
	if t > 10*time.Second {
		t = 10 * time.Second
	}
	for _, sp := range solverSpecs {
		if sp.name != "z3-5.1.0" {
			continue
		}
		a := runSolver(context.Background(), sp, f2, t)
		if a.Status == "sat" {
			return a.Output
		}
	}
	return ""
}

func allErrors(as []SolverAnswer) bool {
	for _, a := range as {
		if a.Status != "error" {
			return false
		}
	}
	return len(as) > 0
}

var queryFileSeq int64
