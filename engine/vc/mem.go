package vc

// mem.go: memory regions as explicit update chains. Reads are resolved by the generator into
// ite-terms over uninterpreted base functions, so queries stay quantifier-free (DESIGN 2.5).

// Mem is one version of a memory region. Arity 1: ref -> value (struct fields through pointers,
// pointer cells, map cardinalities). Arity 2: (ref, index) -> value (slice cells, map domain / values).
type Mem struct {
	kind  memKind
	Name  string // region name
	Arity int
	Sort  Sort
	base  string // MBase: name of the uninterpreted function
	prev  *Mem
	ref   *Term
	idx   *Term // nil for arity 1
	val   *Term
	// MInit: all indices of ref get def
	def *Term
	// MHavoc: raw is a fresh base; keep(ref, idx) is the condition under which prev's value survives
	raw  *Mem
	keep func(ref, idx *Term) *Term
	// MIte
	cond *Term
	a, b *Mem
	// MBulk: cells [dstOff, dstOff+n) of dstRef are copies of src[srcRef][srcOff ...]
	dstOff, srcRef, srcOff, n *Term
	src                       *Mem
	depth                     int
}

type memKind int

const (
	MBase memKind = iota
	MStore
	MInit
	MHavoc
	MIte
	MBulk
	MConst   // every cell holds def
	MCopyRef // every index of ref takes the value src[srcRef][index]
)

func (c *Ctx) NewBaseMem(region string, arity int, s Sort, tag string) *Mem {
	return &Mem{kind: MBase, Name: region, Arity: arity, Sort: s, base: sanitize(c.FreshName("M_" + region + "_" + tag))}
}

// SetBaseTop records the allocation frontier of a base memory: every reference it holds in a cell of an
// object that existed at that time is below the frontier.
func (c *Ctx) SetBaseTop(m *Mem, top *Term) {
	if c.BaseTop == nil {
		c.BaseTop = map[string]*Term{}
	}
	if m.kind == MBase {
		c.BaseTop[m.base] = top
	}
}

// RawOf returns the fresh base introduced by a havoc node.
func (m *Mem) RawOf() *Mem { return m.raw }

// ConstMem is a region whose every cell holds v (e.g. the empty set).
func (c *Ctx) ConstMem(region string, arity int, v *Term) *Mem {
	return &Mem{kind: MConst, Name: region, Arity: arity, Sort: v.Sort, def: v}
}

func (m *Mem) child(k memKind) *Mem {
	return &Mem{kind: k, Name: m.Name, Arity: m.Arity, Sort: m.Sort, prev: m, depth: m.depth + 1}
}

func (c *Ctx) Store(m *Mem, ref, idx, val *Term) *Mem {
	if val.Sort != m.Sort {
		panic("Store sort mismatch in region " + m.Name + ": " + val.String())
	}
	// overwrite of the same cell: drop the older store
	if m.kind == MStore && m.ref == ref && m.idx == idx {
		m = m.prev
	}
	n := m.child(MStore)
	n.ref, n.idx, n.val = ref, idx, val
	return n
}

// InitRef sets every index of ref to def (fresh map / fresh array).
func (c *Ctx) InitRef(m *Mem, ref, def *Term) *Mem {
	n := m.child(MInit)
	n.ref, n.def = ref, def
	return n
}

// Havoc returns a region equal to m where keep holds and arbitrary elsewhere.
func (c *Ctx) Havoc(m *Mem, tag string, keep func(ref, idx *Term) *Term) *Mem {
	n := m.child(MHavoc)
	n.raw = c.NewBaseMem(m.Name, m.Arity, m.Sort, tag)
	n.keep = keep
	return n
}

func (c *Ctx) MemIte(cond *Term, a, b *Mem) *Mem {
	if a == b || cond.IsTrue() {
		return a
	}
	if cond.IsFalse() {
		return b
	}
	n := &Mem{kind: MIte, Name: a.Name, Arity: a.Arity, Sort: a.Sort, cond: cond, a: a, b: b}
	n.depth = a.depth
	if b.depth > n.depth {
		n.depth = b.depth
	}
	n.depth++
	return n
}

func (c *Ctx) Bulk(m *Mem, dstRef, dstOff *Term, src *Mem, srcRef, srcOff, n *Term) *Mem {
	r := m.child(MBulk)
	r.ref, r.dstOff, r.src, r.srcRef, r.srcOff, r.n = dstRef, dstOff, src, srcRef, srcOff, n
	return r
}

// Read resolves a read at (ref, idx).
func (c *Ctx) Read(m *Mem, ref, idx *Term) *Term {
	switch m.kind {
	case MConst:
		return m.def
	case MBase:
		if m.Arity == 1 {
			return c.App(m.base, m.Sort, ref)
		}
		return c.App(m.base, m.Sort, ref, idx)
	case MStore:
		hit := c.Eq(ref, m.ref)
		if m.Arity == 2 {
			hit = c.And(hit, c.Eq(idx, m.idx))
		}
		if hit.IsTrue() {
			return m.val
		}
		if hit.IsFalse() {
			return c.Read(m.prev, ref, idx)
		}
		return c.Ite(hit, m.val, c.Read(m.prev, ref, idx))
	case MInit:
		hit := c.Eq(ref, m.ref)
		if hit.IsTrue() {
			return m.def
		}
		if hit.IsFalse() {
			return c.Read(m.prev, ref, idx)
		}
		return c.Ite(hit, m.def, c.Read(m.prev, ref, idx))
	case MHavoc:
		k := m.keep(ref, idx)
		if k.IsTrue() {
			return c.Read(m.prev, ref, idx)
		}
		if k.IsFalse() {
			return c.Read(m.raw, ref, idx)
		}
		return c.Ite(k, c.Read(m.prev, ref, idx), c.Read(m.raw, ref, idx))
	case MCopyRef:
		hit := c.Eq(ref, m.ref)
		if hit.IsFalse() {
			return c.Read(m.prev, ref, idx)
		}
		sv := c.Read(m.src, m.srcRef, idx)
		if hit.IsTrue() {
			return sv
		}
		return c.Ite(hit, sv, c.Read(m.prev, ref, idx))
	case MIte:
		return c.Ite(m.cond, c.Read(m.a, ref, idx), c.Read(m.b, ref, idx))
	case MBulk:
		hit := c.And(c.Eq(ref, m.ref), c.Le(m.dstOff, idx), c.Lt(idx, c.Add(m.dstOff, m.n)))
		if hit.IsFalse() {
			return c.Read(m.prev, ref, idx)
		}
		sv := c.Read(m.src, m.srcRef, c.Add(m.srcOff, c.Sub(idx, m.dstOff)))
		if hit.IsTrue() {
			return sv
		}
		return c.Ite(hit, sv, c.Read(m.prev, ref, idx))
	}
	panic("bad mem kind")
}
