package vc

import (
	"fmt"
	"go/ast"
	"go/token"
	"go/types"
	"os"
	"sort"
	"strings"

	"golang.org/x/tools/go/packages"
)

// Obligation is one named verification condition: Assumptions |= Goal.
type Obligation struct {
	Name        string
	Func        string // qualified function
	Kind        string
	Label       string
	Props       []string
	Assumptions []*Term
	Goal        *Term
	Pos         string
	Src         string
	Bounded     string
	Cover       bool // must be satisfiable (vacuity guard): Goal is ignored, Assumptions must be sat
	Values      []NamedTerm
	ctx         *Ctx
}

type NamedTerm struct {
	Name string
	T    *Term
}

// Script renders the SMT query of the obligation.
func (o *Obligation) Script(header string) string {
	var gv []*Term
	for _, v := range o.Values {
		gv = append(gv, v.T)
	}
	if o.Cover {
		return o.ctx.Script(o.Assumptions, nil, gv, header)
	}
	return o.ctx.Script(o.Assumptions, o.Goal, gv, header)
}

// ScriptNoQuant renders the query with quantified assumptions dropped (model search, DESIGN 2.5).
func (o *Obligation) ScriptNoQuant(header string) string {
	var as []*Term
	for _, a := range o.Assumptions {
		if !a.HasQuant() {
			as = append(as, a)
		}
	}
	var gv []*Term
	for _, v := range o.Values {
		gv = append(gv, v.T)
	}
	return o.ctx.Script(as, o.Goal, gv, header)
}

// fnv verifies one function.
type fnv struct {
	p    *Prog
	fi   *FuncInfo
	fc   *FuncContract
	pkg  *packages.Package
	info *types.Info
	c    *Ctx
	h    *Heap

	entry       *State // state after assuming the preconditions
	obls        []*Obligation
	counters    map[string]int
	loopOrd     map[ast.Node]int
	callOrd     map[string]int
	callSiteOrd map[*ast.CallExpr]int
	curLp       *loopCtx              // innermost loop whose body is being executed (for pre(e) in at-clauses)
	boxedVar    map[types.Object]bool // locals whose address is taken: live in heap cells
	assumed     map[string]bool       // unchecked assumptions met while generating (callee without contract, ...)
	frames      []*frame
	rangeMap    []rangedMap
	atDone      map[*AtClause]int
	nInline     int

	specDepth     int
	curPos        token.Pos
	pendingPanics []*State
	litOfVar      map[types.Object]*ast.FuncLit
	activeLoops   map[int]*loopCtx
	pendingRaw    []*Mem
	paramVals     map[string]Value
	tids          map[string]types.Type
	ifaces        map[string]types.Type
}

type rangedMap struct {
	mt  types.Type
	ref *Term
}

type frame struct {
	fi        *FuncInfo
	results   []*types.Var
	deferBase int
	lit       bool
}

type deferred struct {
	call *ast.CallExpr
	lit  *ast.FuncLit
	args []Value
	fn   *callTarget
}

// flows is the result of executing a statement.
type flows struct {
	next  *State   // single (merged) continuation
	nexts []*State // the same continuation kept as separate paths (optional; nil means {next})
	brk   []jump
	cont  []jump
	ret   []*State
	pan   []*State
}

type jump struct {
	label string
	s     *State
}

func (f *flows) absorb(g flows) {
	f.brk = append(f.brk, g.brk...)
	f.cont = append(f.cont, g.cont...)
	f.ret = append(f.ret, g.ret...)
	f.pan = append(f.pan, g.pan...)
}

func (x *fnv) qual() string { return x.fi.QualName() }

func (x *fnv) posStr(p token.Pos) string {
	if !p.IsValid() {
		return ""
	}
	ps := x.p.Fset.Position(p)
	fn := ps.Filename
	if strings.HasPrefix(fn, x.p.Root+"/") {
		fn = fn[len(x.p.Root)+1:]
	}
	return fmt.Sprintf("%s:%d", fn, ps.Line)
}

func (x *fnv) nextOrd(kind string) int {
	x.counters[kind]++
	return x.counters[kind]
}

func (x *fnv) props(cl *Clause) []string {
	if cl != nil && len(cl.Props) > 0 {
		return cl.Props
	}
	if x.fc != nil {
		return x.fc.Props
	}
	return nil
}

// oblige records an obligation and then assumes its goal (assert-then-assume).
func (x *fnv) oblige(s *State, kind, label string, goal *Term, pos token.Pos, cl *Clause) {
	if goal.IsTrue() {
		if os.Getenv("GOVC_DEBUG") != "" {
			println("trivial obligation:", x.qual()+"#"+kind+"."+label)
		}
		// a written assertion or postcondition whose goal folds to true while it is built (both sides are the same
		// term) is still reported, so that the named obligation does not vanish from the evidence and the baseline
		if cl == nil || (kind != "assert" && kind != "post") || (x.fc != nil && x.fc.Skip[kind]) {
			return
		}
	}
	if x.fc != nil && (x.fc.Skip[kind] || (strings.HasSuffix(kind, ".frame") && x.fc.Skip["loopframe"])) {
		s.Assume(goal)
		return
	}
	name := x.qual() + "#" + kind
	if label != "" {
		name += "." + label
	}
	o := &Obligation{Name: name, Func: x.qual(), Kind: kind, Label: label, Props: x.props(cl), Goal: goal, Pos: x.posStr(pos), ctx: x.c}
	if x.fc != nil && cl != nil && len(cl.Props) > 0 {
		// a clause tag adds a property to those of the function, it never removes one: assertions, invariants and callee
		// preconditions are assumed by everything that follows them (assert-then-assume), and a postcondition of a function
		// that serves several properties is part of what each of them relies on
		ps := append([]string(nil), o.Props...)
		for _, p := range x.fc.Props {
			has := false
			for _, q := range ps {
				if q == p {
					has = true
				}
			}
			if !has {
				ps = append(ps, p)
			}
		}
		o.Props = ps
	}
	if kind == "frame" || strings.HasSuffix(kind, ".frame") {
		// write-frame obligations are the content of C09 (runs write only their own memory) for every function under contract
		has := false
		for _, p := range o.Props {
			if p == "C09" {
				has = true
			}
		}
		if !has {
			o.Props = append(append([]string(nil), o.Props...), "C09")
		}
	}
	if cl != nil {
		o.Src = cl.Src
	}
	if x.fc != nil {
		o.Bounded = x.fc.Bounded
	}
	o.Assumptions = append([]*Term(nil), s.pc...)
	x.obls = append(x.obls, o)
	s.Assume(goal)
}

// safe records an implicit no-panic obligation.
func (x *fnv) safe(s *State, what string, goal *Term, pos token.Pos) {
	if goal.IsTrue() || x.specDepth > 0 {
		return
	}
	for _, a := range s.pc {
		if a == goal {
			return
		}
	}
	x.oblige(s, "safe", fmt.Sprintf("%s.%d", what, x.nextOrd("safe."+what)), goal, pos, nil)
}

func (x *fnv) assumeNote(msg string) { x.assumed[msg] = true }

// ---- locations ------------------------------------------------------------------------------------

type locKind int

const (
	locVar locKind = iota
	locHeap
	locDeref // whole pointee *p
	locMap
	locBlank
)

type loc struct {
	kind  locKind
	T     types.Type
	obj   types.Object
	path  []int // field path inside a local struct variable
	pre   string
	arity int
	ref   *Term
	idx   *Term
	mt    types.Type
}

func (x *fnv) loadLoc(s *State, l loc) Value {
	switch l.kind {
	case locVar:
		v, ok := s.vars[l.obj]
		if !ok {
			panic(unsupported("variable %s has no value (captured or package-level?)", l.obj.Name()))
		}
		for _, i := range l.path {
			v = v.Fields[i]
		}
		return v
	case locHeap:
		return x.h.readLeaves(s, l.pre, l.arity, l.T, l.ref, l.idx)
	case locDeref:
		return x.h.LoadPtr(s, l.T, l.ref)
	case locMap:
		v, _ := x.h.MapLookup(s, l.mt, l.ref, l.idx)
		return v
	}
	panic("load from blank")
}

func (x *fnv) storeLoc(s *State, l loc, v Value) {
	switch l.kind {
	case locBlank:
	case locVar:
		if len(l.path) == 0 {
			v.T = l.T
			s.vars[l.obj] = v
			return
		}
		root := s.vars[l.obj]
		s.vars[l.obj] = setPath(root, l.path, v)
	case locHeap:
		x.h.writeLeaves(s, l.pre, l.arity, l.T, l.ref, l.idx, v)
	case locDeref:
		x.h.StorePtr(s, l.T, l.ref, v)
	case locMap:
		x.mapStore(s, l.mt, l.ref, l.idx, v, token.NoPos)
	}
}

func setPath(root Value, path []int, v Value) Value {
	if len(path) == 0 {
		return v
	}
	nf := append([]Value(nil), root.Fields...)
	nf[path[0]] = setPath(root.Fields[path[0]], path[1:], v)
	return Value{T: root.T, Fields: nf}
}

// fieldLoc returns the location of field i of the struct stored at l.
func (x *fnv) fieldLoc(l loc, st *types.Struct, i int) loc {
	f := st.Field(i)
	switch l.kind {
	case locVar:
		return loc{kind: locVar, T: f.Type(), obj: l.obj, path: append(append([]int(nil), l.path...), i)}
	case locHeap:
		return loc{kind: locHeap, T: f.Type(), pre: l.pre + "." + f.Name(), arity: l.arity, ref: l.ref, idx: l.idx}
	case locDeref:
		return loc{kind: locHeap, T: f.Type(), pre: fieldRegion(l.T, f.Name()), arity: 1, ref: l.ref}
	}
	panic(unsupported("field of non-addressable location"))
}

// mapStore performs m[k] = v with the nil-map obligation and the range-loop guard.
func (x *fnv) mapStore(s *State, mt types.Type, m, k *Term, v Value, pos token.Pos) {
	x.safe(s, "nilmap", x.c.Ne(m, x.c.Int(0)), pos)
	for _, rm := range x.rangeMap {
		if typeStr(rm.mt) == typeStr(mt) {
			// inserting into the map being ranged over makes the iteration set unspecified in Go
			had := x.h.MapHas(s, mt, m, k)
			x.safe(s, "range_insert", x.c.Or(x.c.Ne(m, rm.ref), had), pos)
		}
	}
	x.h.MapStore(s, mt, m, k, v)
}

// ---- dynamic types ---------------------------------------------------------------------------------

func (x *fnv) tid(t types.Type) *Term {
	if tp, ok := t.(*types.TypeParam); ok {
		return x.c.Const("tidparam_"+tp.Obj().Name(), SInt)
	}
	ts := typeStr(t)
	if _, seen := x.tids[ts]; !seen {
		x.tids[ts] = t
		for is, it := range x.ifaces {
			x.implFact(ts, t, is, it)
		}
	}
	return x.c.DistinctConst("tid", "tid_"+ts)
}

// implFact records impl_I(tid_T) as computed by go/types.
func (x *fnv) implFact(ts string, t types.Type, is string, it types.Type) {
	iface, ok := it.Underlying().(*types.Interface)
	if !ok || hasTypeParam(t) || hasTypeParam(it) {
		return
	}
	v := types.Implements(t, iface)
	x.c.AddFact("impl|"+is+"|"+ts, x.c.Eq(x.c.App("impl_"+is, SBool, x.c.DistinctConst("tid", "tid_"+ts)), x.c.Bool(v)))
}

func hasTypeParam(t types.Type) bool {
	found := false
	var walk func(t types.Type, depth int)
	walk = func(t types.Type, depth int) {
		if found || depth > 6 {
			return
		}
		switch u := t.(type) {
		case *types.TypeParam:
			found = true
		case *types.Named:
			for i := 0; i < u.TypeArgs().Len(); i++ {
				walk(u.TypeArgs().At(i), depth+1)
			}
		case *types.Pointer:
			walk(u.Elem(), depth+1)
		case *types.Slice:
			walk(u.Elem(), depth+1)
		case *types.Map:
			walk(u.Key(), depth+1)
			walk(u.Elem(), depth+1)
		}
	}
	walk(t, 0)
	return found
}

func (x *fnv) dyn(i *Term) *Term { return x.c.App("dyn", SInt, i) }

// box converts a concrete value to an interface value.
func (x *fnv) box(s *State, v Value) *Term {
	c := x.c
	t := v.T
	ls := flatten(v)
	name := "box_" + typeStr(t)
	b := c.App(name, SInt, ls...)
	if b.HasBVar() {
		return b
	}
	if s.typed[b] {
		return b
	}
	s.typed[b] = true
	s.Assume(c.Gt(b, c.Int(0)))
	s.Assume(c.Eq(x.dyn(b), x.tid(t)))
	lv := leavesOf(t)
	mr := c.Int(0)
	for i, l := range ls {
		s.Assume(c.Eq(c.App(fmt.Sprintf("unbox_%s_%d", typeStr(t), i), lv[i].Sort, b), l))
		if lv[i].Sort == SInt && (lv[i].T == nil || isAllocRef(lv[i].T)) {
			mr = c.Ite(c.Ge(l, mr), l, mr)
		}
	}
	s.Assume(c.Eq(c.App("maxref", SInt, b), mr))
	return b
}

// isAllocRef: values of this type are references handed out by the allocator (or nil).
func isAllocRef(t types.Type) bool {
	if isContextType(t) {
		return true
	}
	switch t.Underlying().(type) {
	case *types.Pointer, *types.Map, *types.Chan:
		return true
	}
	return false
}

// unbox extracts the payload of interface value i as type t (meaningful only when dyn(i) == tid(t)).
func (x *fnv) unbox(s *State, i *Term, t types.Type) Value {
	lv := leavesOf(t)
	ts := make([]*Term, len(lv))
	for k, l := range lv {
		ts[k] = x.c.App(fmt.Sprintf("unbox_%s_%d", typeStr(t), k), l.Sort, i)
	}
	v := unflatten(t, ts)
	if len(ts) == 1 && isAllocRef(t) {
		fact := x.c.And(x.c.Le(ts[0], x.c.App("maxref", SInt, i)), x.c.Ge(ts[0], x.c.Int(0)))
		if ts[0].HasBVar() {
			if s.binderFacts != nil {
				*s.binderFacts = append(*s.binderFacts, fact)
			}
		} else if !s.typed[fact] {
			s.typed[fact] = true
			s.Assume(fact)
		}
	}
	return v
}

// isType is the ok-condition of i.(t).
func (x *fnv) isType(s *State, i *Term, t types.Type) *Term {
	c := x.c
	if _, isIface := t.Underlying().(*types.Interface); isIface {
		if _, tp := t.(*types.TypeParam); !tp {
			return c.And(c.Ne(i, c.Int(0)), x.implements(x.dyn(i), t))
		}
	}
	ok := c.And(c.Ne(i, c.Int(0)), c.Eq(x.dyn(i), x.tid(t)))
	// surjectivity: an interface value of dynamic type t is the box of its payload
	if !i.HasBVar() && kindOf(t) != kUnsupported {
		key := c.App("surj_"+typeStr(t), SBool, i)
		if !s.typed[key] {
			s.typed[key] = true
			pay := x.unbox(s, i, t)
			s.Assume(c.Implies(ok, c.Eq(c.App("box_"+typeStr(t), SInt, flatten(pay)...), i)))
		}
	}
	return ok
}

// implements(tid, iface) is an uninterpreted predicate, with the facts for the type ids known to
// the generator added lazily by addImplFacts.
func (x *fnv) implements(tid *Term, iface types.Type) *Term {
	is := typeStr(iface)
	if _, seen := x.ifaces[is]; !seen {
		x.ifaces[is] = iface
		for ts, t := range x.tids {
			x.implFact(ts, t, is, iface)
		}
	}
	return x.c.App("impl_"+is, SBool, tid)
}

// coerce converts v to type dst (implicit conversions at assignments, calls, returns).
func (x *fnv) coerce(s *State, v Value, dst types.Type) Value {
	if dst == nil {
		return v
	}
	if v.T == nil || isUntypedNil(v.T) {
		z := x.h.zeroValue(dst)
		return z
	}
	dk, sk := kindOf(dst), kindOf(v.T)
	if dk == kIface && sk != kIface {
		return Value{T: dst, Term: x.box(s, v)}
	}
	if dk == kIface && sk == kIface {
		return Value{T: dst, Term: v.Term}
	}
	// same representation; retag
	switch {
	case v.Sl != nil:
		return Value{T: dst, Sl: v.Sl}
	case v.Fields != nil:
		return Value{T: dst, Fields: v.Fields}
	}
	if dk == kStruct || dk == kSlice {
		if sk != dk {
			panic(unsupported("conversion %s -> %s", typeStr(v.T), typeStr(dst)))
		}
	}
	return Value{T: dst, Term: v.Term}
}

func isUntypedNil(t types.Type) bool {
	b, ok := t.(*types.Basic)
	return ok && b.Kind() == types.UntypedNil
}

// ---- strings ---------------------------------------------------------------------------------------

func (x *fnv) strLit(sv string) *Term {
	if sv == "" {
		return x.c.Int(0)
	}
	name := "str_" + sanitize(sv)
	if len(name) > 40 {
		name = name[:40]
	}
	name = fmt.Sprintf("%s_%x", name, fnvHash(sv))
	t := x.c.DistinctConst("str", name)
	return t
}

func fnvHash(s string) uint32 {
	var h uint32 = 2166136261
	for i := 0; i < len(s); i++ {
		h ^= uint32(s[i])
		h *= 16777619
	}
	return h
}

func (x *fnv) strLen(s *State, t *Term) *Term {
	c := x.c
	l := c.App("strlen", SInt, t)
	if !l.HasBVar() && !s.typed[l] {
		s.typed[l] = true
		s.Assume(c.And(c.Ge(l, c.Int(0)), c.Eq(c.Eq(l, c.Int(0)), c.Eq(t, c.Int(0)))))
	}
	return l
}

func (x *fnv) strConcat(s *State, a, b *Term) *Term {
	c := x.c
	if a.IsLit() && a.LitVal() == 0 {
		return b
	}
	if b.IsLit() && b.LitVal() == 0 {
		return a
	}
	r := c.App("strcat", SInt, a, b)
	if !r.HasBVar() && !s.typed[r] {
		s.typed[r] = true
		s.Assume(c.And(c.Ge(r, c.Int(0)),
			c.Eq(c.App("strlen", SInt, r), c.Add(c.App("strlen", SInt, a), c.App("strlen", SInt, b))),
			c.Implies(c.Eq(a, c.Int(0)), c.Eq(r, b)), c.Implies(c.Eq(b, c.Int(0)), c.Eq(r, a))))
		x.strLen(s, a)
		x.strLen(s, b)
		x.strLen(s, r)
	}
	return r
}

// ---- modified-set analysis for loops ---------------------------------------------------------------

type writeSet struct {
	vars    map[types.Object]bool
	regions map[string]bool // region name prefixes
	all     bool            // unknown writes: havoc every materialised region
	ghosts  map[string]bool // ghost variables updated by at-clauses of calls in the analysed code
	allocs  *writeSet       // regions initialised by allocations (&T{...}) in the analysed code
}

func newWriteSet() *writeSet {
	return &writeSet{vars: map[types.Object]bool{}, regions: map[string]bool{}}
}

func (w *writeSet) sortedRegions() []string {
	out := make([]string, 0, len(w.regions))
	for r := range w.regions {
		out = append(out, r)
	}
	sort.Strings(out)
	return out
}

// paths returns the normal continuations as separate states.
func (f *flows) paths() []*State {
	if f.nexts != nil {
		return f.nexts
	}
	if f.next != nil {
		return []*State{f.next}
	}
	return nil
}
