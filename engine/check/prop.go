package check

func Check(opts Options) int      { return 2 }
func Rebaseline(opts Options) int { return 2 }
