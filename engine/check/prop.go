package check

import (
	"bufio"
	"encoding/json"
	"fmt"
	"os"
	"path/filepath"
	"regexp"
	"sort"
	"strings"
	"time"

	"govc/vc"
)

// prop.go: the per-property check (quick / thorough), baseline, known findings, evidence, replay files.

type finding struct {
	Kind       string // finding | fixed
	Property   string
	Obligation string
	What       string
	Line       string
}

var kvRe = regexp.MustCompile(`(\w+)=("[^"]*"|\S+)`)

func loadFindings(verif string) ([]finding, error) {
	f, err := os.Open(filepath.Join(verif, "known_findings.txt"))
	if err != nil {
		if os.IsNotExist(err) {
			return nil, nil
		}
		return nil, err
	}
	defer f.Close()
	var out []finding
	sc := bufio.NewScanner(f)
	for sc.Scan() {
		line := strings.TrimSpace(sc.Text())
		if line == "" || strings.HasPrefix(line, "#") {
			continue
		}
		var fd finding
		switch {
		case strings.HasPrefix(line, "finding:"):
			fd.Kind = "finding"
		case strings.HasPrefix(line, "fixed:"):
			fd.Kind = "fixed"
		default:
			continue
		}
		fd.Line = line
		for _, m := range kvRe.FindAllStringSubmatch(line, -1) {
			v := strings.Trim(m[2], `"`)
			switch m[1] {
			case "property":
				fd.Property = v
			case "obligation":
				fd.Obligation = v
			case "what":
				fd.What = v
			}
		}
		out = append(out, fd)
	}
	return out, sc.Err()
}

type baseline map[string][]string

func loadBaseline(verif string) baseline {
	b := baseline{}
	data, err := os.ReadFile(filepath.Join(verif, "engine", "baseline_obligations.json"))
	if err != nil {
		return b
	}
	json.Unmarshal(data, &b)
	return b
}

// baselineKinds are the obligation kinds whose names are stable (labelled clauses); implicit safety
// obligations are numbered and are not part of the baseline.
func inBaseline(o *vc.Obligation) bool {
	if o.Cover || o.Bounded != "" {
		return false
	}
	switch {
	case o.Kind == "safe", o.Kind == "unreachable":
		return false
	case o.Kind == "frame", strings.HasSuffix(o.Kind, ".frame"):
		// generated per region written: a region that is no longer written needs no frame obligation
		return false
	case strings.HasPrefix(o.Kind, "pre"), strings.HasPrefix(o.Kind, "lock"):
		return false
	}
	return true
}

func selectFor(prop string) (func(string, *vc.FuncContract) bool, func(*vc.Lemma) bool) {
	return func(id string, fc *vc.FuncContract) bool {
			if hasProp(fc.Props, prop) {
				return true
			}
			if prop == "C09" && !fc.Trusted && !fc.Abstract {
				return true // frame obligations of every verified function
			}
			for _, cls := range [][]*vc.Clause{fc.Requires, fc.Ensures} {
				for _, cl := range cls {
					if hasProp(cl.Props, prop) {
						return true
					}
				}
			}
			for _, lc := range fc.Loops {
				for _, cl := range lc.Invariants {
					if hasProp(cl.Props, prop) {
						return true
					}
				}
			}
			for _, at := range fc.Ats {
				if at.Clause != nil && hasProp(at.Clause.Props, prop) {
					return true
				}
			}
			return false
		}, func(lm *vc.Lemma) bool {
			return hasProp(lm.Props, prop)
		}
}

type violation struct {
	Obligation string
	Reason     string
	Replay     string
	NoInput    bool
}

// Check runs one property check.
func Check(opts Options) int {
	start := time.Now()
	prop := opts.Prop
	if prop == "" {
		fmt.Fprintln(os.Stderr, "check: -prop required")
		return 2
	}
	selF, selL := selectFor(prop)
	rr, err := generate(opts, selF, selL)
	replayDir := filepath.Join(opts.Verif, "replays", prop)
	if err != nil {
		// the tree does not load (does not compile with the tag on, contract file broken)
		os.MkdirAll(replayDir, 0o755)
		rp := filepath.Join(replayDir, "load-error.json")
		writeJSON(rp, map[string]any{"property": prop, "obligation": "load", "error": err.Error()})
		fmt.Printf("VIOLATION property=%s replay=%s no-failing-input-found\n", prop, rp)
		fmt.Printf("  cannot generate obligations: %v\n", err)
		return 1
	}
	rr.discharge(opts, func(o *vc.Obligation) bool { return hasProp(o.Props, prop) })
	defer rr.cleanup(opts)

	findings, _ := loadFindings(opts.Verif)
	base := loadBaseline(opts.Verif)

	// aggregate per obligation name
	type agg struct {
		name      string
		instances []*oblResult
	}
	byName := map[string]*agg{}
	var order []string
	for _, r := range rr.Results {
		a := byName[r.O.Name]
		if a == nil {
			a = &agg{name: r.O.Name}
			byName[r.O.Name] = a
			order = append(order, r.O.Name)
		}
		a.instances = append(a.instances, r)
	}
	sort.Strings(order)

	var viols []violation
	var known []string
	knownSeen := map[string]bool{}
	nObl, nDis, nCover, nBounded, nBoundedOK := 0, 0, 0, 0, 0
	bySolver := map[string]int{}
	byKind := map[string]int{}
	solverSecs := 0.0
	var samples []any
	var knownList []any
	os.RemoveAll(replayDir)

	deadReturns, liveReturns := map[string]int{}, map[string]int{}
	var unreachable []string
	isKnown := func(name string) *finding {
		for i := range findings {
			f := &findings[i]
			if f.Kind == "finding" && f.Property == prop && f.Obligation == name {
				return f
			}
		}
		return nil
	}

	// generator refusals
	for _, f := range rr.Funcs {
		if f.Err == nil {
			continue
		}
		name := f.Func + "#generate"
		if kf := isKnown(name); kf != nil {
			if !knownSeen[name] {
				knownSeen[name] = true
				known = append(known, fmt.Sprintf("KNOWN-FINDING: property=%s %s", prop, kf.What))
			}
			continue
		}
		rp := writeReplay(replayDir, name, map[string]any{"property": prop, "obligation": name, "verdict": "no-model",
			"generator_message": f.Err.Error(), "note": "the obligations of this function can no longer be generated from the current source"})
		viols = append(viols, violation{Obligation: name, Reason: f.Err.Error(), Replay: rp, NoInput: true})
	}

	for _, name := range order {
		a := byName[name]
		o0 := a.instances[0].O
		allOK := true
		var worst *oblResult
		for _, r := range a.instances {
			solverSecs += r.V.Secs
			switch r.V.Status {
			case "discharged", "covered", "covered-unknown":
			default:
				allOK = false
				if worst == nil || r.V.Status == "failed" {
					worst = r
				}
			}
		}
		if o0.Cover && strings.Contains(name, "#cover.call.") {
			// a call site reached on several paths: infeasible paths are expected, the guard fails only when
			// no path reaches a state consistent with the callee's postconditions
			nCover++
			anyOK := false
			for _, r := range a.instances {
				if r.V.Status == "covered" || r.V.Status == "covered-unknown" {
					anyOK = true
				}
			}
			if !anyOK {
				rp := writeReplay(replayDir, name, replayDoc(prop, worst, rr, "vacuity guard: no path through this call is consistent with the callee's postconditions"))
				viols = append(viols, violation{Obligation: name, Reason: "vacuity guard " + worst.V.Status, Replay: rp, NoInput: true})
			}
			continue
		}
		if o0.Cover {
			nCover++
			if !allOK && strings.Contains(name, "#cover.return.") {
				// a return that is unreachable under the contracts (defensive error handling) is recorded,
				// not reported: the function-level guard below requires at least one reachable return
				deadReturns[o0.Func]++
				unreachable = append(unreachable, name)
				continue
			}
			if strings.Contains(name, "#cover.return.") {
				liveReturns[o0.Func]++
			}
			if !allOK {
				rp := writeReplay(replayDir, name, replayDoc(prop, worst, rr, "vacuity guard: the assumptions reaching this point are unsatisfiable (contradictory precondition/invariant or unreachable code)"))
				viols = append(viols, violation{Obligation: name, Reason: "vacuity guard " + worst.V.Status, Replay: rp, NoInput: true})
			}
			continue
		}
		if o0.Bounded != "" {
			nBounded++
			if allOK {
				nBoundedOK++
			}
		}
		kf := isKnown(name)
		if kf != nil {
			if !allOK {
				if !knownSeen[name] {
					knownSeen[name] = true
					known = append(known, fmt.Sprintf("KNOWN-FINDING: property=%s %s", prop, kf.What))
				}
				knownList = append(knownList, map[string]any{"obligation": name, "what": kf.What, "status": worst.V.Status})
			} else {
				knownList = append(knownList, map[string]any{"obligation": name, "what": kf.What, "status": "no longer reproduces"})
			}
			continue
		}
		if o0.Bounded == "" {
			nObl++
			byKind[kindGroup(o0.Kind)]++
		}
		if allOK {
			if o0.Bounded == "" {
				nDis++
				bySolver[a.instances[0].V.By]++
			}
			if len(samples) < 12 && o0.Src != "" {
				samples = append(samples, map[string]any{"obligation": name, "clause": o0.Src, "at": o0.Pos, "discharged_by": a.instances[0].V.By, "instances": len(a.instances)})
			}
			continue
		}
		reason := "obligation " + worst.V.Status
		doc := replayDoc(prop, worst, rr, "")
		noInput := true
		if worst.V.Status == "failed" {
			reason = "counterexample found by " + worst.V.By
		} else {
			// say what each solver answered: an undischarged obligation is undecided, and why matters
			var parts []string
			for _, an := range worst.V.Answers {
				parts = append(parts, fmt.Sprintf("%s=%s/%.1fs", an.Solver, an.Status, an.Secs))
			}
			if len(parts) > 9 {
				parts = parts[:9]
			}
			reason += " (" + strings.Join(parts, " ") + ")"
		}
		rp := writeReplay(replayDir, name, doc)
		viols = append(viols, violation{Obligation: name, Reason: reason, Replay: rp, NoInput: noInput})
	}
	for fn, n := range deadReturns {
		if liveReturns[fn] == 0 && n > 0 {
			rp := writeReplay(replayDir, fn+"#cover.returns", map[string]any{"property": prop, "obligation": fn + "#cover.returns", "verdict": "no-model",
				"note": "no return of this function is reachable under its contract: postconditions would hold vacuously"})
			viols = append(viols, violation{Obligation: fn + "#cover.returns", Reason: "all returns unreachable (vacuous contract)", Replay: rp, NoInput: true})
		}
	}
	// baseline: every claimed obligation must still be generated
	for _, bn := range base[prop] {
		if _, ok := byName[bn]; ok {
			continue
		}
		if isKnown(bn) != nil {
			continue
		}
		dup := false
		for _, v := range viols {
			if strings.HasPrefix(bn, strings.TrimSuffix(v.Obligation, "#generate")+"#") {
				dup = true
			}
		}
		if dup {
			continue
		}
		rp := writeReplay(replayDir, bn, map[string]any{"property": prop, "obligation": bn, "verdict": "no-model",
			"note": "this obligation is discharged on the pinned tree and is no longer generated (function or clause gone, or it no longer serves this property)"})
		viols = append(viols, violation{Obligation: bn, Reason: "claimed obligation no longer generated", Replay: rp, NoInput: true})
	}
	if nObl == 0 && len(viols) == 0 {
		rp := writeReplay(replayDir, "no-obligations", map[string]any{"property": prop, "note": "no obligations were generated for this property"})
		viols = append(viols, violation{Obligation: "no-obligations", Reason: "vacuous check", Replay: rp, NoInput: true})
	}

	// evidence
	var funcs []string
	var trusted []string
	assumed := map[string]bool{}
	for _, f := range rr.Funcs {
		if f.Trusted {
			continue
		}
		funcs = append(funcs, f.Func)
		for _, a := range f.Assumed {
			assumed[a] = true
		}
	}
	for _, id := range rr.Prog.SortedContractKeys() {
		fc := rr.Prog.Contracts.Funcs[id]
		if (fc.Trusted || fc.Abstract) && len(fc.UsedBy) > 0 {
			kind := "trusted contract"
			if fc.Abstract {
				kind = "interface-method contract (implementations checked separately)"
			}
			trusted = append(trusted, fmt.Sprintf("%s: %s %s", kind, id, strings.Join(fc.Notes, "; ")))
		}
	}
	for m := range rr.Prog.Models {
		trusted = append(trusted, "library model: "+m)
	}
	// entry preconditions that no call site verified in this run had to establish are assumptions about the callers
	for _, f := range rr.Funcs {
		fc := rr.Prog.Contracts.Funcs[f.ID]
		if fc == nil || fc.Trusted || fc.Abstract || len(fc.Requires) == 0 {
			continue
		}
		others := 0
		for u := range fc.UsedBy {
			if u != f.Func {
				others++ // a recursive call does not count: it assumes the precondition it establishes
			}
		}
		if others > 0 {
			continue
		}
		var srcs []string
		for _, cl := range fc.Requires {
			srcs = append(srcs, cl.Src)
		}
		a := "precondition assumed of the callers of " + f.Func + " (no call site verified in this run establishes it): " + strings.Join(srcs, " && ")
		if len(a) > 600 {
			a = a[:600] + "..."
		}
		assumed[a] = true
	}
	trusted = append(trusted,
		"SMT solvers z3 4.8.12, z3 5.1.0, cvc5 1.0.3 (an obligation is discharged when one answers unsat and none answers sat)",
		"govc's own symbolic semantics of the accepted Go subset (DESIGN.md section 2)",
		"go/types (golang.org/x/tools v0.29.0 loader) for typing and method sets")
	sort.Strings(trusted)
	var assumptions []string
	for a := range assumed {
		assumptions = append(assumptions, a)
	}
	sort.Strings(assumptions)
	assumptions = append(assumptions,
		"A-INT: Go integers are mathematical integers with the type's sign assumed; overflow is not modelled (unsigned subtraction is checked)",
		"composition of the per-function contracts into the whole-run statement of the property is a hand-written argument in DESIGN.md section 3, not machine-checked",
		"map iteration order is arbitrary: range-over-map loops are verified for an arbitrary unvisited key under their invariant")
	sort.Strings(funcs)
	ev := map[string]any{
		"property_id": prop,
		"tier":        tierName(opts.Tier),
		"seed":        opts.Seed,
		"level":       "proof",
		"coverage": map[string]any{
			"obligations":                         nObl,
			"discharged":                          nDis,
			"checker_cmd":                         fmt.Sprintf("/verif/bin/govc check -prop %s -tier %s -root %s", prop, tierName(opts.Tier), opts.Root),
			"trusted_base":                        trusted,
			"functions_under_contract":            funcs,
			"obligations_by_kind":                 byKind,
			"discharged_by_solver":                bySolver,
			"vacuity_guards":                      nCover,
			"bounded_standins":                    map[string]any{"obligations": nBounded, "ok": nBoundedOK, "note": "bounded stand-ins are not counted in obligations/discharged"},
			"known_findings":                      knownList,
			"returns_unreachable_under_contracts": unreachable,
			"samples":                             samples,
			"solver_seconds_total":                round2(solverSecs),
			"load_seconds":                        round2(rr.LoadSecs),
			"generate_seconds":                    round2(rr.GenSecs),
			"explanation":                         "each obligation is an SMT query generated from the typed AST of the function in /repo's working tree and its //@ contract; names are pkg.func#kind.label",
		},
		"assumptions": assumptions,
		"wall_s":      round2(time.Since(start).Seconds()),
		"violations":  len(viols),
	}
	if !opts.NoEvidence {
		if err := writeJSON(filepath.Join(opts.Verif, "evidence", prop+".json"), ev); err != nil {
			fmt.Fprintln(os.Stderr, "evidence:", err)
		}
	}
	for _, k := range known {
		fmt.Println(k)
	}
	for _, v := range viols {
		suffix := ""
		if v.NoInput {
			suffix = " no-failing-input-found"
		}
		fmt.Printf("VIOLATION property=%s replay=%s%s\n", prop, v.Replay, suffix)
		fmt.Printf("  obligation %s: %s\n", v.Obligation, v.Reason)
	}
	fmt.Printf("%s %s: %d obligations, %d discharged, %d vacuity guards, %d known findings, %d violations, %.1fs\n",
		prop, tierName(opts.Tier), nObl, nDis, nCover, len(known), len(viols), time.Since(start).Seconds())
	if len(viols) > 0 {
		return 1
	}
	return 0
}

func kindGroup(k string) string {
	switch {
	case strings.HasPrefix(k, "inv."):
		return "invariant"
	case strings.HasPrefix(k, "dec."):
		return "variant"
	case strings.HasPrefix(k, "pre"):
		return "callee-precondition"
	}
	return k
}

func tierName(t string) string {
	if t == "thorough" {
		return "thorough"
	}
	return "quick"
}

func round2(f float64) float64 { return float64(int(f*100+0.5)) / 100 }

func replayDoc(prop string, r *oblResult, rr *runResult, note string) map[string]any {
	doc := map[string]any{
		"property":   prop,
		"obligation": r.O.Name,
		"function":   r.O.Func,
		"at":         r.O.Pos,
		"clause":     r.O.Src,
		"status":     r.V.Status,
		"answers":    r.V.Answers,
		"verdict":    "no-model",
	}
	if note != "" {
		doc["note"] = note
	}
	if r.V.Model != "" {
		doc["model"] = r.V.Model
		doc["verdict"] = "model-not-replayed"
	}
	if r.V.Phase2 != nil {
		doc["model_search_without_quantified_assumptions"] = r.V.Phase2
	}
	doc["smt_query"] = r.O.Script("(set-option :produce-models true)\n(set-logic ALL)\n")
	return doc
}

func writeReplay(dir, name string, doc map[string]any) string {
	os.MkdirAll(dir, 0o755)
	p := filepath.Join(dir, sanitizeName(name)+".json")
	writeJSON(p, doc)
	return p
}

func sanitizeName(s string) string {
	var sb strings.Builder
	for _, r := range s {
		switch {
		case r >= 'a' && r <= 'z', r >= 'A' && r <= 'Z', r >= '0' && r <= '9', r == '_', r == '.', r == '-', r == '#':
			sb.WriteRune(r)
		default:
			sb.WriteByte('_')
		}
	}
	out := sb.String()
	if len(out) > 150 {
		out = out[:150]
	}
	return out
}

// Rebaseline records, per property, the labelled obligations that are discharged on the current tree.
func Rebaseline(opts Options) int {
	rr, err := generate(opts, func(string, *vc.FuncContract) bool { return true }, func(*vc.Lemma) bool { return true })
	if err != nil {
		fmt.Fprintln(os.Stderr, "error:", err)
		return 2
	}
	rr.discharge(opts, nil)
	defer rr.cleanup(opts)
	ok := map[string]bool{}
	bad := map[string]bool{}
	props := map[string][]string{}
	for _, r := range rr.Results {
		if !inBaseline(r.O) {
			continue
		}
		if r.V.Status == "discharged" {
			ok[r.O.Name] = true
		} else {
			bad[r.O.Name] = true
		}
		props[r.O.Name] = r.O.Props
	}
	b := baseline{}
	for n := range ok {
		if bad[n] {
			continue
		}
		for _, p := range props[n] {
			b[p] = append(b[p], n)
		}
	}
	for p := range b {
		sort.Strings(b[p])
	}
	if err := writeJSON(filepath.Join(opts.Verif, "engine", "baseline_obligations.json"), b); err != nil {
		fmt.Fprintln(os.Stderr, err)
		return 2
	}
	n := 0
	for _, v := range b {
		n += len(v)
	}
	fmt.Printf("baseline: %d (property, obligation) pairs; %d obligation names not discharged and left out\n", n, len(bad))
	for nme := range bad {
		fmt.Println("  not in baseline:", nme)
	}
	for _, f := range rr.Funcs {
		if f.Err != nil {
			fmt.Println("  generator error:", f.Err)
		}
	}
	return 0
}
