// Package check orchestrates property checks: load /repo, generate obligations for the functions
// under contract that serve a property, discharge them, compare with the baseline and the known
// findings, write evidence and replay files.
package check

import (
	"encoding/json"
	"fmt"
	"os"
	"path/filepath"
	"runtime"
	"sort"
	"strings"
	"sync"
	"time"

	"govc/vc"
)

type Options struct {
	Root, Verif, Prop, Tier, Filter, KeepDir string
	Verbose, NoEvidence                      bool
	Seed                                     int
}

func env() {
	os.Setenv("GOFLAGS", "-mod=mod")
	os.Setenv("GOPROXY", "off")
	os.Setenv("GOSUMDB", "off")
	os.Setenv("GOTOOLCHAIN", "local")
}

// discover lists the package directories (relative patterns) that carry a contract file.
func discover(root string) ([]string, error) {
	var pats []string
	err := filepath.Walk(root, func(path string, info os.FileInfo, err error) error {
		if err != nil {
			return nil
		}
		if info.IsDir() && (info.Name() == ".git" || info.Name() == "testdata") {
			return filepath.SkipDir
		}
		if !info.IsDir() && info.Name() == vc.ContractFileName {
			rel, _ := filepath.Rel(root, filepath.Dir(path))
			pats = append(pats, "./"+rel)
		}
		return nil
	})
	sort.Strings(pats)
	return pats, err
}

type oblResult struct {
	O *vc.Obligation
	V vc.Verdict
	F *vc.FuncResult
}

type runResult struct {
	Prog     *vc.Prog
	Funcs    []*vc.FuncResult
	Results  []*oblResult
	LoadSecs float64
	GenSecs  float64
	Dir      string
}

// generate loads the tree and generates obligations for the selected contracts.
func generate(opts Options, selFunc func(id string, fc *vc.FuncContract) bool, selLemma func(lm *vc.Lemma) bool) (*runResult, error) {
	env()
	pats, err := discover(opts.Root)
	if err != nil {
		return nil, err
	}
	if len(pats) == 0 {
		return nil, fmt.Errorf("no contract files (%s) found under %s", vc.ContractFileName, opts.Root)
	}
	t0 := time.Now()
	prog, err := vc.Load(opts.Root, pats)
	if err != nil {
		return nil, err
	}
	rr := &runResult{Prog: prog, LoadSecs: time.Since(t0).Seconds()}
	t1 := time.Now()
	for _, id := range prog.SortedContractKeys() {
		fc := prog.Contracts.Funcs[id]
		if fc.Abstract {
			continue
		}
		if !selFunc(id, fc) {
			continue
		}
		fi := prog.Funcs[id]
		if fi == nil {
			rr.Funcs = append(rr.Funcs, &vc.FuncResult{Func: id, ID: id, Props: fc.Props, Err: fmt.Errorf("contract for %s: no such function in the tree", id)})
			continue
		}
		rr.Funcs = append(rr.Funcs, prog.VerifyFunc(fi, fc))
	}
	for _, lm := range prog.Contracts.Lemmas {
		if selLemma(lm) {
			rr.Funcs = append(rr.Funcs, prog.VerifyLemma(lm))
		}
	}
	rr.GenSecs = time.Since(t1).Seconds()
	return rr, nil
}

func (rr *runResult) discharge(opts Options, keep func(o *vc.Obligation) bool) {
	dir := opts.KeepDir
	if dir == "" {
		base := "/dev/shm"
		if _, err := os.Stat(base); err != nil {
			base = os.TempDir()
		}
		d, err := os.MkdirTemp(base, "govc-")
		if err != nil {
			d, _ = os.MkdirTemp("", "govc-")
		}
		dir = d
	} else {
		os.MkdirAll(dir, 0o755)
	}
	rr.Dir = dir
	// idle Ps of a 16-P runtime slow down process creation in this VM by an order of magnitude
	runtime.GOMAXPROCS(2)
	timeout := 20 * time.Second
	thorough := opts.Tier == "thorough"
	if thorough {
		timeout = 60 * time.Second
	}
	type job struct {
		r   *oblResult
		seq int
	}
	var jobs []job
	for _, f := range rr.Funcs {
		for _, o := range f.Obligations {
			if keep != nil && !keep(o) {
				continue
			}
			r := &oblResult{O: o, F: f}
			rr.Results = append(rr.Results, r)
			jobs = append(jobs, job{r, len(jobs)})
		}
	}
	workers := 8
	if thorough {
		workers = 5
	}
	ch := make(chan job)
	var wg sync.WaitGroup
	for w := 0; w < workers; w++ {
		wg.Add(1)
		go func() {
			defer wg.Done()
			for j := range ch {
				sub := filepath.Join(dir, fmt.Sprintf("%04d", j.seq))
				os.MkdirAll(sub, 0o755)
				j.r.V = vc.Discharge(j.r.O, sub, timeout, thorough)
			}
		}()
	}
	// VERIF_SEED only permutes the order in which queries are issued
	order := make([]int, len(jobs))
	for i := range order {
		order[i] = i
	}
	if opts.Seed != 0 {
		s := uint64(opts.Seed)*6364136223846793005 + 1442695040888963407
		for i := len(order) - 1; i > 0; i-- {
			s = s*6364136223846793005 + 1442695040888963407
			k := int((s >> 33) % uint64(i+1))
			order[i], order[k] = order[k], order[i]
		}
	}
	for _, i := range order {
		ch <- jobs[i]
	}
	close(ch)
	wg.Wait()
}

func (rr *runResult) cleanup(opts Options) {
	if opts.KeepDir == "" && rr.Dir != "" {
		os.RemoveAll(rr.Dir)
	}
}

func hasProp(ps []string, p string) bool {
	for _, q := range ps {
		if q == p {
			return true
		}
	}
	return false
}

// Verify is the development command: verify the functions matching the filter and print everything.
func Verify(opts Options) int {
	rr, err := generate(opts, func(id string, fc *vc.FuncContract) bool {
		return opts.Filter == "" || strings.Contains(id, opts.Filter)
	}, func(lm *vc.Lemma) bool { return opts.Filter == "" || strings.Contains("lemma."+lm.Name, opts.Filter) })
	if err != nil {
		fmt.Fprintln(os.Stderr, "error:", err)
		return 2
	}
	rr.discharge(opts, nil)
	defer rr.cleanup(opts)
	bad := 0
	shown := 0
	for _, f := range rr.Funcs {
		if f.Trusted {
			fmt.Printf("== %s: trusted\n", f.Func)
			continue
		}
		fmt.Printf("== %s: %d obligations\n", f.Func, len(f.Obligations))
		if f.Err != nil {
			fmt.Printf("   GENERATOR ERROR: %v\n", f.Err)
			bad++
		}
		for _, a := range f.Assumed {
			fmt.Printf("   assumed: %s\n", a)
		}
	}
	for _, r := range rr.Results {
		ok := r.V.Status == "discharged" || r.V.Status == "covered" || r.V.Status == "covered-unknown" ||
			(r.V.Status == "vacuous" && (strings.Contains(r.O.Name, "#cover.return.") || strings.Contains(r.O.Name, "#cover.call.")))
		if !ok {
			bad++
		}
		if !ok {
			shown++
		}
		if (opts.Verbose || !ok) && (opts.Verbose || shown <= 25) {
			fmt.Printf("%-13s %-70s %5.2fs %s  [%s]\n", r.V.Status, r.O.Name, r.V.Secs, r.V.By, r.O.Pos)
			if !ok {
				if r.O.Src != "" {
					fmt.Printf("      clause: %s\n", r.O.Src)
				}
				for _, a := range r.V.Answers {
					if a.Status != "unsat" {
						fmt.Printf("      %s: %s\n", a.Solver, a.Status)
					}
				}
				if opts.Verbose && r.V.Model != "" {
					fmt.Printf("      model: %s\n", trunc(r.V.Model, 3000))
				}
			}
		}
	}
	fmt.Printf("load %.1fs, generate %.1fs, %d obligations, %d not ok (queries in %s)\n", rr.LoadSecs, rr.GenSecs, len(rr.Results), bad, rr.Dir)
	if bad > 0 {
		return 1
	}
	return 0
}

func trunc(s string, n int) string {
	if len(s) > n {
		return s[:n] + "..."
	}
	return s
}

// List prints the contracts and the properties they serve.
func List(opts Options) int {
	env()
	pats, err := discover(opts.Root)
	if err != nil {
		fmt.Fprintln(os.Stderr, err)
		return 2
	}
	prog, err := vc.Load(opts.Root, pats)
	if err != nil {
		fmt.Fprintln(os.Stderr, err)
		return 2
	}
	for _, id := range prog.SortedContractKeys() {
		fc := prog.Contracts.Funcs[id]
		fmt.Printf("%s props=%v trusted=%v abstract=%v requires=%d ensures=%d\n", id, fc.Props, fc.Trusted, fc.Abstract, len(fc.Requires), len(fc.Ensures))
	}
	return 0
}

func writeJSON(path string, v any) error {
	b, err := json.MarshalIndent(v, "", " ")
	if err != nil {
		return err
	}
	os.MkdirAll(filepath.Dir(path), 0o755)
	return os.WriteFile(path, append(b, '\n'), 0o644)
}
